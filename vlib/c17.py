"""C17 -- Boost.Serialization round trip.  Proof: coq/Properties/Properties_C17.v.
Tie: harness/h_serial*.cpp (real text/binary/XML archives) vs the extracted model (driver_c17)."""
import concurrent.futures as cf
import glob
import hashlib
import json
import os
import re
import tempfile

from . import core

PID = "C17"
HARNESS_SOURCES = ["h_serial.cpp", "h_serial_int.cpp", "h_serial_double.cpp", "h_serial_string.cpp", "h_serial_nested.cpp"]
HARNESS_HEADERS = ["h_serial.hpp", "h_serial_impl.hpp"]
DRIVER = os.path.join(core.BIN, "driver_c17")


def workdir():
    d = os.path.join(core.BUILD, "work", PID)
    os.makedirs(d, exist_ok=True)
    return d


# ----------------------------------------------------------------------------------------------
# building (helper kept here instead of core.build_harness: the five translation units are compiled in
# parallel and linked; same caching rule -- content hash of BM_REPO/include + harness sources + flags)
# ----------------------------------------------------------------------------------------------
def build_harness(flags=(), tag=""):
    hdir = os.path.join(core.VERIF, "harness")
    srcs = [os.path.join(hdir, s) for s in HARNESS_SOURCES]
    hdrs = [os.path.join(hdir, s) for s in HARNESS_HEADERS]
    key = hashlib.sha256((core.include_hash() + core.tree_hash(srcs + hdrs) + " ".join(flags)).encode()).hexdigest()[:16]
    name = "h_serial" + tag
    exe = os.path.join(core.BIN, "%s-%s" % (name, key))
    if os.path.exists(exe):
        return True, exe, "cached"
    for f in os.listdir(core.BIN):
        if f.startswith(name + "-"):
            try:
                os.remove(os.path.join(core.BIN, f))
            except OSError:
                pass
    odir = os.path.join(core.BUILD, "obj", name + "-" + key)
    os.makedirs(odir, exist_ok=True)
    base = ["g++", "-std=c++17", "-O1", "-g0", "-I" + core.INCLUDE, "-I" + hdir] + list(flags)

    def one(src):
        obj = os.path.join(odir, os.path.basename(src)[:-4] + ".o")
        rc, out, err = core.sh(base + ["-c", src, "-o", obj], timeout=900)
        return rc, obj, out + err

    with cf.ThreadPoolExecutor(max_workers=len(srcs)) as ex:
        results = list(ex.map(one, srcs))
    bad = [log for rc, _o, log in results if rc != 0]
    if bad:
        return False, exe, "\n".join(b[-3000:] for b in bad)
    link_flags = [f for f in flags if f.startswith("-fsanitize")]
    rc, out, err = core.sh(["g++"] + link_flags + [o for _rc, o, _l in results] + ["-o", exe, "-lboost_serialization"], timeout=600)
    if rc != 0:
        return False, exe, (out + err)[-4000:]
    return True, exe, "built"


def ensure_driver():
    return core.ensure_driver_for("c17", "ExtractC17.v", ["c17_zu.ml", "c17_driver.ml"], "driver_c17", model_base="modelc17")


# ----------------------------------------------------------------------------------------------
# model side
# ----------------------------------------------------------------------------------------------
CONST1D = {"ok": True}   # set by const1d_probe(): can read-only 1-D views be saved on this tree?


def const1d_probe(res):
    """compile probe: saving rows / 1-D blocks of const arrays (const_subarray<T, 1, T*>)"""
    src = os.path.join(core.VERIF, "harness", "c17_constview_probe.cpp")
    rc, out, err = core.sh(["g++", "-std=c++17", "-fsyntax-only", "-I" + core.INCLUDE, src], timeout=600)
    CONST1D["ok"] = (rc == 0)
    if rc != 0:
        errs = [l for l in (out + err).splitlines() if " error" in l]
        kf = core.match_known(PID, {"harness": "h_serial", "found_by": "api-gap", "operation": "save-readonly-1d-view"})
        if kf:
            res.known_finding(kf)
        else:
            path = core.write_replay(PID, open(src).read(), {"property": PID, "found-by": "build:a read-only 1-D view cannot be saved",
                                                             "compiler-said": (errs[0] if errs else "")[:400]})
            res.violation(path, "saving a read-only 1-D view (row of a const array) does not compile")
    return CONST1D["ok"]


def generate(seed, count, prefix="c"):
    d = workdir()
    prog, obs = os.path.join(d, "prog_%s.txt" % prefix), os.path.join(d, "obs_%s.txt" % prefix)
    rc, out, err = core.sh([DRIVER, "gen", "--seed", str(seed), "--count", str(count), "--prog", prog, "--obs", obs,
                            "--prefix", prefix] + (["--const1d"] if CONST1D["ok"] else []), timeout=900)
    if rc != 0:
        raise RuntimeError("driver_c17 gen failed: " + err[-2000:])
    try:
        dist = json.loads(out.strip().splitlines()[-1])
    except Exception:
        dist = {}
    return open(prog).read(), open(obs).read(), dist


def model_run(prog_text):
    d = workdir()
    fd, p = tempfile.mkstemp(dir=d, suffix=".prog")
    os.write(fd, prog_text.encode())
    os.close(fd)
    o = p + ".obs"
    rc, out, err = core.sh([DRIVER, "run", "--prog", p, "--obs", o], timeout=300)
    txt = open(o).read() if os.path.exists(o) else ""
    for f in (p, o):
        try:
            os.remove(f)
        except OSError:
            pass
    if rc != 0:
        raise RuntimeError("driver_c17 run failed: " + err[-2000:])
    return txt


# ----------------------------------------------------------------------------------------------
# comparing one run
# ----------------------------------------------------------------------------------------------
def judge(prog_text, obs_text, impl_text, crashes):
    """Returns ({case id: (found_by, model_line, impl_line, record)}, stats).  Only failing cases are listed."""
    model, impl = core.by_case(obs_text), core.by_case(impl_text)
    crashed = {cid: (rc, err) for cid, rc, err in crashes}
    failing = {}
    stats = {"lines_compared": 0, "monitor_lines": 0, "xml_token_lines": 0, "crashes": len(crashes)}
    for cid, _b in core.split_cases(prog_text):
        ml = model.get(cid, [])
        if any(l.startswith(("W ", "ERR ")) for l in ml):
            bad = [l for l in ml if l.startswith(("W ", "ERR "))][0]
            failing[cid] = ("generator:case-outside-the-theorem-premises", bad, "", {"found_by": "generator"})
            continue
        if cid in crashed:     # the model never aborts: every crash (assertion, sanitizer report, signal) is a failure
            rc, err = crashed[cid]
            tail = [l for l in err.strip().splitlines() if l.strip()][-1:] or [""]
            rec = {"harness": "h_serial", "found_by": "crash", "exit": rc}
            failing[cid] = ("crash", "<the model loads this case>", "exit/signal %s: %s" % (rc, tail[0][-400:]), rec)
            continue
        il_all = impl.get(cid)
        if il_all is not None and any(l.startswith("SKIP ") for l in il_all):
            stats["skipped"] = stats.get("skipped", 0) + 1
            continue
        if il_all is None:
            failing[cid] = ("correspondence", ml[0] if ml else "", "<no output>", {"found_by": "correspondence"})
            continue
        mon = [l for l in il_all if l.startswith("M ")]
        il = [l for l in il_all if not l.startswith("M ")]
        stats["lines_compared"] += len(ml)
        stats["monitor_lines"] += len(mon)
        stats["xml_token_lines"] += sum(1 for l in ml if l.startswith("T "))
        if ml != il:
            pair = next(((a, b) for a, b in zip(ml, il) if a != b), ("<%d lines>" % len(ml), "<%d lines>" % len(il)))
            failing[cid] = ("correspondence", pair[0], pair[1], {"found_by": "correspondence", "line": pair[0][:1]})
            continue
        for l in mon:
            zeros = re.findall(r"(\w+)=0\b", l)
            if zeros:
                failing[cid] = ("monitor:" + ",".join(zeros), "", l, {"found_by": "monitor", "monitor": zeros[0]})
                break
    return failing, stats


def run_both(exe, prog_text, obs_text=None, shards=None):
    if obs_text is None:
        obs_text = model_run(prog_text)
    impl_text, crashes = core.run_harness(exe, prog_text, shards=shards, timeout=600)
    return judge(prog_text, obs_text, impl_text, crashes)


# ----------------------------------------------------------------------------------------------
# shrinking (greedy, each candidate re-run on model and library)
# ----------------------------------------------------------------------------------------------
def parse_block(block):
    d, order = {}, []
    for line in block.splitlines():
        w = line.split()
        if not w or w[0] == "end":
            continue
        d[w[0]] = w[1:]
        order.append(w[0])
    return d, order


def print_block(d, order):
    return "".join("%s %s\n" % (k, " ".join(d[k])) for k in order) + "end\n"


def _num(pairs):
    n = 1
    for k in range(0, len(pairs), 2):
        n *= int(pairs[k + 1]) - int(pairs[k])
    return n


def _vals(elem, n, salt=1):
    if elem == "nested":
        return " ".join("{ 0 %d%s }" % (k % 3, "".join(" %d" % (10 * salt + j) for j in range(k % 3))) for k in range(n)).split()
    return [str(salt * 10 + k + 1) for k in range(n)]


def candidates(block):
    d, order = parse_block(block)
    out = []

    def emit(dd):
        out.append(print_block(dd, order))
    if d.get("kind") == ["array"]:
        elem = d["elem"][0]
        for arch in ("xml",):
            if d["arch"] != [arch]:
                dd = dict(d); dd["arch"] = [arch]; emit(dd)
        if elem != "int":
            dd = dict(d); dd["elem"] = ["int"]
            dd["sv"] = _vals("int", _num(d["src"])); dd["pv"] = _vals("int", _num(d["prior"]), 2) if d["pmode"] != ["default"] else []
            emit(dd)
        for key, vkey, salt in (("src", "sv", 1), ("prior", "pv", 2)):
            p = d[key]
            if key == "prior" and d["pmode"] == ["default"]:
                continue
            if any(int(p[k]) != 0 for k in range(0, len(p), 2)):
                dd = dict(d)
                dd[key] = sum(([("0"), str(int(p[k + 1]) - int(p[k]))] for k in range(0, len(p), 2)), [])
                emit(dd)
            for k in range(0, len(p), 2):
                if int(p[k + 1]) - int(p[k]) > 0:
                    q = list(p); q[k + 1] = str(int(p[k + 1]) - 1)
                    dd = dict(d); dd[key] = q; dd[vkey] = _vals(elem, _num(q), salt)
                    emit(dd)
        if d["pmode"] == ["cleared"]:
            dd = dict(d); dd["pmode"] = ["ctor"]; emit(dd)
    else:
        if d["elem"] == ["int"]:
            pass
        for key in ("sperm", "dperm"):
            if d[key] != ["0", "0"]:
                dd = dict(d); dd[key] = ["0", "0"]; emit(dd)
        if d.get("sconst") == ["1"]:
            dd = dict(d); dd["sconst"] = ["0"]; emit(dd)
        if d["arch"] != ["xml"]:
            dd = dict(d); dd["arch"] = ["xml"]; emit(dd)
    return out


def case_fails(exe, block):
    cid = core.split_cases(block)[0][0]
    failing, _ = run_both(exe, block, shards=1)
    return failing.get(cid)


def shrink(exe, block, kind, budget=60):
    cur = block
    improved = True
    while improved and budget > 0:
        improved = False
        for cand in candidates(cur):
            budget -= 1
            if budget <= 0:
                break
            try:
                r = case_fails(exe, cand)
            except Exception:
                r = None
            if r and r[0].split(":")[0] == kind.split(":")[0]:
                cur, improved = cand, True
                break
    return cur


# ----------------------------------------------------------------------------------------------
# cross-check of extraction + driver: a sub-sample is re-evaluated by vm_compute inside coqc
# ----------------------------------------------------------------------------------------------
def _zl(words):
    return "[" + "; ".join("(%s)" % w for w in words) + "]"


def _pairs(words):
    return "[" + "; ".join("((%s), (%s))" % (words[k], words[k + 1]) for k in range(0, len(words), 2)) + "]"


def _elems(words, nested):
    if not nested:
        return _zl(words)
    out, k = [], 0
    while k < len(words):
        assert words[k] == "{"
        e = words.index("}", k)
        lo, hi, vals = words[k + 1], words[k + 2], words[k + 3:e]
        out.append("(mk_carr (cx_collapse [((%s), (%s))]) %s)" % (lo, hi, _zl(vals)))
        k = e + 1
    return "[" + "; ".join(out) + "]"


def _recipe(d, tag):
    root = d[tag + "root"]
    ops, w, k = [], d[tag + "ops"], 0
    while k < len(w):
        if w[k] == "i":
            ops.append("CIndex (%s)" % w[k + 1]); k += 2
        else:
            ops.append("CRange (%s) (%s) (%s)" % (w[k + 1], w[k + 2], w[k + 3])); k += 4
    perm = d[tag + "perm"]
    return "(cv_recipe (%s) %s [%s] %s %s)" % (root[0], _zl(root[2:]), "; ".join(ops), perm[0], "true" if perm[1] == "1" else "false")


def vm_crosscheck(blocks):
    """blocks: list of case texts.  Every model observation the driver printed for them (tokens, loaded
    extents and elements, receiving buffer, predicted assertion) is restated as a Coq Goal closed by
    vm_compute; reflexivity.  Returns (ok, number of goals, log)."""
    prog = "".join(re.sub(r"(?m)^arch \w+$", "arch xml", b) for b in blocks)
    obs = core.by_case(model_run(prog))
    lines = ["From Coq Require Import ZArith List Bool.", "From BM Require Import Model.CodecArray Model.CodecView.",
             "Import ListNotations.", "Local Open Scope Z_scope."]
    goals = 0

    def goal(stmt):
        nonlocal goals
        goals += 1
        lines.append("Goal %s. Proof. vm_compute. reflexivity. Qed." % stmt)
    for cid, b in core.split_cases(prog):
        d, _ = parse_block(b)
        o = {}
        for l in obs.get(cid, []):
            o.setdefault(l.split()[0], l.split()[2:])
        nested = d["elem"] == ["nested"]
        if d["kind"] == ["array"]:
            if "X" not in o or o["X"] == ["NONE"]:
                continue
            save, load = ("save_nested", "load_nested") if nested else ("save_flat", "load_flat")
            rank = int(d["rank"][0])
            src = "(mk_carr (cx_collapse %s) %s)" % (_pairs(d["src"]), _elems(d["sv"], nested))
            zero = "(repeat (0, 0) %d)" % rank
            if d["pmode"] == ["ctor"]:
                pexts = "(cx_collapse %s)" % _pairs(d["prior"])
                prior = "(mk_carr %s %s)" % (pexts, _elems(d["pv"], nested))
            else:
                pexts = zero
                prior = "(mk_carr %s [])" % zero
            goal("%s %s = %s" % (save, src, _zl(o["T"])))
            loaded = "(mk_carr %s %s)" % (_pairs(o["X"]), _elems(o["V"], nested))
            goal("%s %s %s = Some (%s, [])" % (load, prior, _zl(o["T"]), loaded))
        else:
            if "B" not in o or o["B"] == ["NONE"]:
                continue
            save, load = ("save_view_nested", "load_view_nested") if nested else ("save_view_flat", "load_view_flat")
            goal("%s %s %s = %s" % (save, _recipe(d, "s"), _elems(d["sv"], nested), _zl(o["T"])))
            goal("%s %s %s %s = Some (%s, [])" % (load, _recipe(d, "d"), _zl(o["T"]), _elems(d["dv"], nested), _elems(o["B"], nested)))
    path = os.path.join(workdir(), "CasesC17.v")
    open(path, "w").write("\n".join(lines) + "\n")
    rc, out, err = core.sh(["coqc", "-Q", core.COQ, "BM", path], cwd=workdir(), timeout=1200)
    return rc == 0, goals, (out + err)[-2000:]


# ----------------------------------------------------------------------------------------------
def report(res, exe, prog_text, failing, max_report=4):
    blocks = dict(core.split_cases(prog_text))
    n_reported, n_known = 0, 0
    for cid in sorted(failing, key=lambda c: len(blocks.get(c, ""))):
        found_by, ml, il, rec = failing[cid]
        block = blocks.get(cid, "")
        kf = core.match_known(PID, rec)
        if kf:
            res.known_finding(kf)
            n_known += 1
            continue
        if n_reported >= max_report:
            continue
        n_reported += 1
        small = shrink(exe, block, found_by) if found_by.split(":")[0] in ("correspondence", "monitor", "crash") else block
        r = case_fails(exe, small) or (found_by, ml, il, rec)
        if core.match_known(PID, r[3]):      # shrinking must not turn a new failure into the known one
            small, r = block, (found_by, ml, il, rec)
        path = core.write_replay(PID, small, {
            "property": PID, "tier": res.tier, "seed": res.seed, "found-by": r[0],
            "model-said": r[1], "implementation-said": r[2],
            "note": "model = proved to round-trip (Properties_C17.v); replay: ./check C17 --replay <this file>"})
        res.violation(path, "%s: model %r impl %r" % (r[0], r[1], r[2]))
    return n_known


SAN = ("-fsanitize=address,undefined", "-fno-sanitize-recover=all")


def build_all(res):
    coq = core.coq_check_property(PID)
    core.proof_coverage(res, coq)
    ok_d, log_d = ensure_driver()
    # thorough: the same harness under ASan + UBSan (assertions stay enabled)
    base = () if CONST1D["ok"] else ("-DHS_NO_CONST1D",)
    ok_h, exe, log_h = (build_harness(flags=tuple(SAN) + base, tag="_san" + ("" if CONST1D["ok"] else "_noc1"))
                        if res.tier == "thorough" else build_harness(flags=base, tag="" if CONST1D["ok"] else "_noc1"))
    problems, pending = [], None
    if not ok_d:
        problems.append(("build:model-extraction-or-driver_c17", log_d))
    if not ok_h:
        step = "build:harness-h_serial-does-not-compile-against-%s" % core.INCLUDE
        # look for a failing input with the part of the harness that still compiles (no 0-D arrays)
        ok_f, exe_f, _log_f = build_harness(flags=("-DHS_NO_RANK0",) + base, tag="_norank0" + ("" if CONST1D["ok"] else "_noc1"))
        if ok_f and ok_d:
            exe, pending = exe_f, (step, log_h)
        else:
            problems.append((step, log_h))
    for step, log in problems:
        path = core.write_replay(PID, "", {"property": PID, "found-by": step, "log": log[-3000:]})
        res.violation(path, step, no_input=True)
    return coq, (None if problems else exe), pending


def nontrivial(block):
    """array: the receiving array is not already equal in extents and the source is not 0-D;
    view: at least one element and a receiving layout that is not the plain contiguous block"""
    d, _ = parse_block(block)
    if d.get("kind") == ["array"]:
        return d["rank"] != ["0"] and (d["pmode"] != ["ctor"] or d["src"] != d["prior"])
    return "r 0 0" not in " ".join(d.get("sops", []))


def canonical(block):
    return "\n".join(l for l in block.splitlines() if not l.startswith("case "))


def run(tier, seed, replay=None):
    res = core.Result(PID, tier, seed, level="proof")
    if not replay:
        const1d_probe(res)
    else:
        rc, _o, _e = core.sh(["g++", "-std=c++17", "-fsyntax-only", "-I" + core.INCLUDE,
                              os.path.join(core.VERIF, "harness", "c17_constview_probe.cpp")], timeout=600)
        CONST1D["ok"] = (rc == 0)
    coq, exe, pending_build = build_all(res)
    if exe is None:
        return res.finish()
    if replay:
        block = "".join(l for l in open(replay) if not l.startswith("#"))
        failing, _ = run_both(exe, block, shards=1)
        print("replay verdict:", failing if failing else "agrees (no violation)")
        for cid, (found_by, ml, il, rec) in failing.items():
            kf = core.match_known(PID, rec)
            if kf:
                res.known_finding(kf)
            else:
                res.violation(os.path.relpath(replay, core.VERIF), "%s: model %r impl %r" % (found_by, ml, il))
        return res.finish()
    count = 3000 if tier == "quick" else 150000
    progs, obss = [], []
    for f in sorted(glob.glob(os.path.join(core.VERIF, "corpus", PID, "*.prog"))):
        block = "".join(l for l in open(f) if not l.startswith("#"))
        progs.append(block)
        obss.append(model_run(block))
    n_corpus = sum(len(core.split_cases(p)) for p in progs)
    p, o, dist = generate(seed, count)
    progs.append(p)
    obss.append(o)
    prog_text, obs_text = "".join(progs), "".join(obss)
    impl_text, crashes = core.run_harness(exe, prog_text, timeout=900)
    failing, stats = judge(prog_text, obs_text, impl_text, crashes)
    n_known_cases = report(res, exe, prog_text, failing)
    n_unexplained = len(res.violations)
    if pending_build and n_unexplained == 0:      # the full harness does not build and no concrete failing input was found
        path = core.write_replay(PID, "", {"property": PID, "found-by": pending_build[0], "log": pending_build[1][-3000:]})
        res.violation(path, pending_build[0], no_input=True)
        n_unexplained = 1
    if not coq["ok"] and n_unexplained == 0:
        path = core.write_replay(PID, "", {"property": PID, "found-by": "proof:Properties_%s.v" % PID, "log": coq["log"][-3000:],
                                           "obligations": coq["obligations"], "discharged": coq["discharged"]})
        res.violation(path, "proof obligations no longer check", no_input=True)
    cases = core.split_cases(prog_text)
    n_vm = 60 if tier == "quick" else 600
    step = max(1, len(cases) // n_vm)
    ok_vm, goals_vm, log_vm = vm_crosscheck([b for _c, b in cases[::step]][:n_vm])
    if not ok_vm:
        path = core.write_replay(PID, "", {"property": PID, "found-by": "build:extracted-model-disagrees-with-vm_compute", "log": log_vm})
        res.violation(path, "extracted model / driver disagree with vm_compute", no_input=True)
    distinct = {hashlib.sha256(canonical(b).encode()).hexdigest() for _c, b in cases if nontrivial(b)}
    samples = [b for _c, b in cases if nontrivial(b)]
    samples = samples[n_corpus:n_corpus + 400:133][:3] + [b for _c, b in cases if "kind view" in b][:1]
    res.coverage.update({
        "evaluations": len(cases),
        "distinct_nontrivial": len(distinct),
        "rule": "68% array cases: archive in {xml,text,binary}, element in {int,double(k/3),std::string(with spaces and XML "
                "specials, empty),multi::array<int,1>(re-based, empty)}, rank 0..4, sizes 0..4 (15% zero, 20% one; product <= 48), 15% with index "
                "bases in -4..3, receiving array in {default-constructed, same extents, different extents, same count other "
                "shape, empty with a shape, cleared, same sizes re-based}; 32% view cases: rank 1..3 views made by []/sliced/"
                "strided/rotated/transposed from array_refs of rank <= 3 inside larger buffers, saved (30% through "
                "const_subarray) and loaded into a view of equal extents (15%: equal count, other shape) of another layout. "
                "non-trivial: array case of rank >= 1 whose receiving array is not constructed with the source's own "
                "extents, or view case whose source view is not made empty by an empty slice; distinct: hash of the case text",
        "samples": samples,
        "generator_distribution": dist,
        "observation_lines_compared": stats["lines_compared"],
        "xml_token_sequences_compared": stats["xml_token_lines"],
        "monitor_lines_checked": stats["monitor_lines"],
        "harness_crashes": stats["crashes"],
        "sanitizers": "address,undefined" if tier == "thorough" else "none (assertions enabled)",
        "vm_compute_crosscheck_goals": goals_vm,
        "corpus_cases": n_corpus,
        "disagreeing_cases": len(failing) - n_known_cases,
        "not_exercised": ["Cereal archives (not installed)", "0-D views", "views of re-based arrays (C19 findings)",
                          "saving a const 1-D view (does not compile at the pinned commit, array_ref.hpp:3262)",
                          "make_nvp on an rvalue view (does not compile, serialization.hpp:144)"],
    })
    res.assumptions = ["Boost.Serialization 1.83 primitives and the element types' own serialize round-trip (premise codec_ok)",
                       "no 64-bit overflow", "g++ 12 / libstdc++ as installed",
                       "elements() visits a view in canonical order (C02); the tie checks it on every view case"]
    return res.finish()

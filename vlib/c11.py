"""C11 -- all guarantees are independent of the pointer type.
Proof: coq/Properties/Properties_C11.v (the model's address computations re-stated over an abstract pointer type:
parametricity + every dereference in bounds).
Tie: the program families of C01 (views), C02 (iterators), C05 (assignment) and C07 (comparison) replayed by
harness/h11_*.cpp instantiated for three element-pointer types -- T*, ptr11::fancy_ptr<T> (offset from a per-type arena
origin, no conversion to or from T*), ptr11::checked_ptr<T> ([lo,hi) provenance, every dereference checked) -- each
compared line by line with the model's observation file (addresses as offsets obtained with the pointer type's own
operator-); the pointer-typed model (extracted, run over a (segment, offset) pointer) must print the same file; the
checked pointer's violation log must be empty; fixed probes of owning-array paths (reextent, clear, copy/move,
initializer lists, algorithms, ...) must print the same on the three pointer types.
Follow-up: (a) the C03 family (standard algorithms and primitive scripts on begin()/end() and elements(); harness/
h11_algos.cpp, programs and expected output from driver_c03); (b) the LIFECYCLE histories of C04/C06/C08 (driver_life,
fault-free) on harness/h11_life.cpp = h_life.cpp over life11::tracked_alloc (common/ptr11_life_alloc.hpp): the lifecycle
ledger with pointer = T* / fancy_ptr<T> (interleaved arena, quarantined) / checked_ptr<T> (provenance = the block; a
released block may not be dereferenced), same observation stream as the extracted Life model required, no K line;
(c) a sample of view programs re-evaluated by vm_compute inside coqc on Model/PtrAlgebra.v over seg_ptr."""
import concurrent.futures as cf
import hashlib
import os
import re

from . import core, progcheck, viewprog, c02, c03, c05, c07
from . import lifecommon as lc
from . import vmcheck

PID = "C11"
KINDS = [("raw", 0), ("fancy", 1), ("checked", 2)]
C11_MLS = ["zu.ml", "views.ml", "iters.ml", "assign.ml", "compare.ml", "c11_run.ml", "c11_gen.ml", "c11_driver.ml"]
PROBE_SRC = "h11_probes.cpp"
ERR_RE = re.compile(r"^(\S+?):(\d+):(\d+): (?:fatal )?error: (.*)$", re.M)


def ensure_c11_driver():
    return core.ensure_driver_for("c11", "ExtractC11.v", C11_MLS, "driver_c11", model_base="model")


def first_error(log):
    m = ERR_RE.search(log or "")
    if not m:
        return {"error_at": "?", "via": "", "error": "", "text": (log or "").strip().splitlines()[-1:] and (log or "").strip().splitlines()[-1][:300]}
    msg = m.group(4)
    return {"error_at": "%s:%s" % (os.path.basename(m.group(1)), m.group(2)),
            "via": "move_ptr" if "move_ptr<" in msg else "",
            "error": "could-not-convert-base_" if ("could not convert" in msg and "base_" in msg) else
                     ("no-matching-function" if "no matching function" in msg else ("no-match-for-operator" if "no match for" in msg else "other")),
            "text": ("%s:%s:%s: error: %s" % (m.group(1), m.group(2), m.group(3), msg))[:600]}


# --------------------------------------------------------------------------------------------
# families
# --------------------------------------------------------------------------------------------
def k_lines(impl_text):
    return [(l.split()[1], "checked-pointer-violation", l) for l in impl_text.splitlines() if l.startswith("K ")]


def mon_views(impl_text, obs_text):
    return viewprog.monitors(impl_text, viewprog.nroots(obs_text)) + k_lines(impl_text)


def mon_iters(impl_text, obs_text):
    return c02.monitor(impl_text, obs_text) + k_lines(impl_text)


def mon_assign(impl_text, obs_text):
    return c05.monitor(impl_text, obs_text) + k_lines(impl_text)


def mon_compare(impl_text, obs_text):
    return c07.monitor(impl_text, obs_text) + k_lines(impl_text)


def mon_algos(impl_text, obs_text):
    # C03's monitors (vector twin, frame, guards, moved-from outside); the violation log is the "Y" line in this family
    # (rows whose shape multi::array cannot hold are C03's own known finding, identical on every pointer type: not repeated here)
    return [m for m in c03.monitor(impl_text, obs_text) if m[1] != c03.COLLAPSE] + [(l.split()[1], "checked-pointer-violation", l) for l in impl_text.splitlines() if l.startswith("Y ")]


FAMILIES = {
    # name: (generator sub-command, run sub-command, harness source, monitor, body prefixes, min lines for "non-trivial", hash prefixes)
    "views": ("views", "views-run", "h11_views.cpp", mon_views, ("op ", "probe "), 3, ("op ", "root ")),
    "iters": ("iters", "iters-run", "h11_iters.cpp", mon_iters, ("op ", "w ", "it "), 6, ("op ", "root ", "w ", "it ")),
    "assign": ("assign", "assign-run", "h11_assign.cpp", mon_assign, ("dop ", "sop "), 4, ("droot", "dop ", "sroot", "sop ", "do ")),
    "compare": ("compare", "compare-run", "h11_compare.cpp", mon_compare, ("xop ",), 6, ("xroot", "xop ", "xdata")),
    # C03: standard algorithms and primitive scripts on begin()/end() and elements() (driver_c03, no pointer-typed model)
    "algos": ("gen", "run", "h11_algos.cpp", mon_algos, ("aop ", "bop ", "prim "), 3, ("aroot", "aop ", "broot", "bop ", "range", "prim ", "algo ")),
}
FAMILY_DRIVER = {"algos": "driver_c03"}
FAMILY_FLAGS = {"algos": ("-DBM_MAXD=3", "-w")}
NO_PTR_MODEL = ("algos",)


class Fam(progcheck.Family):
    """one program family on one pointer type"""

    def __init__(self, fam, kind, kidx, extra_flags=()):
        gen, run, src, mon, prefixes, _ml, _hp = FAMILIES[fam]
        super().__init__(PID, gen, run, "h11_%s_%s" % (fam, kind), [src], monitor=mon,
                         flags=("-DPTR11_KIND=%d" % kidx,) + FAMILY_FLAGS.get(fam, ()) + tuple(extra_flags), body_prefixes=prefixes,
                         driver=FAMILY_DRIVER.get(fam, "driver"))
        self.fam, self.kind = fam, kind
        self.raw = ""

    def workdir(self):
        d = os.path.join(core.BUILD, "work", PID, "%s_%s" % (self.fam, self.kind))
        os.makedirs(d, exist_ok=True)
        return d

    def _norm(self, text):
        if self.fam != "compare":
            return text
        # the C07 harness prints four ==/!= pairs in `mixed=` (array, double elements, pointer-to-const view, cref);
        # the pointer-typed copies print the first pair only
        text = re.sub(r"mixed=(\S\S)\S*", r"mixed=\1", text)
        return c07.normalise(text, c07.empties(text))

    def model_run(self, prog_text):
        return self._norm(super().model_run(prog_text))

    def ptr_model_run(self, prog_text):
        """the POINTER-typed model (driver_c11 run) on the same program text"""
        d = self.workdir()
        p = os.path.join(d, "ptrmodel_%s.prog" % hashlib.sha256(prog_text.encode()).hexdigest()[:10])
        open(p, "w").write(prog_text)
        o = p + ".obs"
        rc, out, err = core.sh([os.path.join(core.BIN, "driver_c11"), "run", "--family", self.fam, "--prog", p, "--obs", o], timeout=600)
        txt = open(o).read() if os.path.exists(o) else ""
        for f in (p, o):
            try:
                os.remove(f)
            except OSError:
                pass
        if rc != 0:
            raise RuntimeError("driver_c11 run failed: " + err[-2000:])
        return self._norm(txt)

    def impl_run(self, prog_text, shards=None):
        out, crashes = core.run_harness(self.exe, prog_text, env=self.env, shards=shards, timeout=600)
        self.raw = out
        return self._norm(out), crashes

    def case_fails(self, block):
        if self.fam == "assign":
            c05.index_prog(block)
        if self.fam == "algos":
            c03.index_prog(block)
        mtxt = self.model_run(block)
        if re.search(r"^X ", mtxt, re.M):
            return None
        itxt, crashes = self.impl_run(block, shards=1)
        if crashes:
            tail = (crashes[0][2].strip().splitlines() or [""])[-1]
            return ("crash", "", "signal/exit %s: %s" % (crashes[0][1], tail))
        d = core.diff_cases(mtxt, itxt)
        if d:
            return ("correspondence", d[0][1], d[0][2])
        mon = self.monitor(self.raw if self.fam == "compare" else itxt, mtxt)
        if mon:
            return ("monitor:" + mon[0][1], "", mon[0][2])
        return False


def classify(res, fam_obj, prog_text, obs_text, impl_text, crashes, max_report=2):
    """diff + monitors + crashes for one (family, pointer type) -> known findings / shrunk replays."""
    blocks = dict(core.split_cases(prog_text))
    failing = {}
    for cid, ml, il in core.diff_cases(obs_text, impl_text):
        failing.setdefault(cid, ("correspondence", ml, il))
    if fam_obj.fam == "assign":
        c05.index_prog(prog_text)
    if fam_obj.fam == "algos":
        c03.index_prog(prog_text)
    for cid, what, line in fam_obj.monitor(fam_obj.raw if fam_obj.fam == "compare" else impl_text, obs_text):
        failing.setdefault(cid, ("monitor:" + what, "", line))
    for cid, rc, err in crashes:
        tail = (err.strip().splitlines() or [""])[-1]
        failing[cid] = ("crash", "", "exit/signal %s: %s" % (rc, tail))
    n_reported = 0
    for cid in sorted(failing, key=lambda c: len(blocks.get(c, ""))):
        found_by, ml, il = failing[cid]
        block = blocks.get(cid)
        if block is None:
            continue
        record = {"harness": "h11_" + fam_obj.fam, "family": fam_obj.fam, "pointer": fam_obj.kind, "found_by": found_by.split(":")[0]}
        kf = core.match_known(PID, record)
        if kf:
            res.known_finding(kf)
            continue
        if n_reported >= max_report:
            continue
        n_reported += 1
        small = fam_obj.shrink(block, budget=40)
        r = fam_obj.case_fails(small)
        if not r:
            small, r = block, (found_by, ml, il)
        path = core.write_replay(PID, small, {
            "property": PID, "family": fam_obj.fam, "pointer": fam_obj.kind, "tier": res.tier, "seed": res.seed,
            "found-by": r[0], "model-said": r[1], "implementation-said": r[2],
            "note": "expected = the model's observation (integer model = pointer-typed model, Properties_C11.v); the same program "
                    "must print the same on T*, fancy_ptr<T> and checked_ptr<T>; replay: ./check C11 --replay <this file>"})
        res.violation(path, "%s/%s %s: model %r impl %r" % (fam_obj.fam, fam_obj.kind, r[0], r[1], r[2]))
    return len(failing)


def family_of_text(text):
    m = re.search(r"^# family: (\w+)", text, re.M)
    if m:
        return m.group(1)
    body = "\n".join(l for l in text.splitlines() if not l.startswith("#"))
    if re.search(r"^cfg ", body, re.M):
        return "life"
    if re.search(r"^aroot ", body, re.M):
        return "algos"
    if re.search(r"^buf ", body, re.M):
        return "assign"
    if re.search(r"^xroot ", body, re.M):
        return "compare"
    if re.search(r"^it ", body, re.M):
        return "iters"
    return "views"


# --------------------------------------------------------------------------------------------
# probes (fixed programs on owning arrays): grouped build + isolated ones
# --------------------------------------------------------------------------------------------
def probe_table():
    src = open(os.path.join(core.VERIF, "harness", PROBE_SRC)).read()
    grouped = [(int(k), n) for k, n in re.findall(r"^C11_PROBE\((\d+), (\w+)\)", src, re.M)]
    isolated = [(int(k), n) for k, n in re.findall(r"^C11_ISOLATED\((\d+), (\w+)\)", src, re.M)]
    return grouped, isolated


def syntax_check(kidx, only):
    cmd = ["g++", "-std=c++17", "-fsyntax-only", "-w", "-I" + core.INCLUDE, "-I" + os.path.join(core.VERIF, "harness"),
           "-DPTR11_KIND=%d" % kidx, "-DC11_ONLY=%d" % only, os.path.join(core.VERIF, "harness", PROBE_SRC)]
    rc, out, err = core.sh(cmd, timeout=600)
    return rc == 0, out + err


def q_lines(text):
    d = {}
    for line in text.splitlines():
        p = line.split(" ", 2)
        if len(p) >= 2 and p[0] in ("Q", "K"):
            d.setdefault(p[1], []).append(line)
    return d


def report_probe(res, record, body, header):
    kf = core.match_known(PID, record)
    if kf:
        res.known_finding(kf)
        return 0
    hdr = {"property": PID}
    hdr.update(record)
    hdr.update(header)
    path = core.write_replay(PID, body, hdr)
    res.violation(path, "probe %s on %s pointer: %s" % (record.get("probe"), record.get("pointer"), header.get("what", "")),
                  no_input=(record.get("found_by") == "compile"))
    return 1


def probe_source_of(name):
    src = open(os.path.join(core.VERIF, "harness", PROBE_SRC)).read()
    m = re.search(r"^C11_(?:PROBE|ISOLATED)\(\d+, %s\).*?(?=^#endif)" % re.escape(name), src, re.M | re.S)
    return "// harness/%s\n%s" % (PROBE_SRC, m.group(0) if m else "")


def run_probes(res, builds, pool):
    """builds: {(name): (ok, exe, log)} for 'probes_<kind>' and 'iso<k>_<kind>'.  Returns (stats, n_bad)."""
    grouped, isolated = probe_table()
    n_bad = 0
    stats = {"grouped_probes": len(grouped), "isolated_probes": len(isolated), "probe_lines_compared": 0, "probe_compile_failures": []}
    outs = {}
    skipped_names = {}
    for kind, kidx in KINDS:
        ok, exe, log = builds["probes_" + kind]
        if not ok:
            if kind == "raw":
                path = core.write_replay(PID, "", {"property": PID, "found-by": "build:harness-h11_probes-does-not-compile-against-" + core.INCLUDE, "log": log[-3000:]})
                res.violation(path, "probes do not build with raw pointers", no_input=True)
                return stats, n_bad + 1
            # name the expressions: compile every grouped probe alone
            futs = {pool.submit(syntax_check, kidx, k): (k, n) for k, n in grouped}
            skip = []
            for fut, (k, n) in futs.items():
                ok1, log1 = fut.result()
                if not ok1:
                    e = first_error(log1)
                    skip.append(k)
                    stats["probe_compile_failures"].append("%s/%s" % (n, kind))
                    n_bad += report_probe(res, {"harness": "c11_probe", "found_by": "compile", "probe": n, "pointer": kind,
                                                "error_at": e["error_at"], "via": e["via"], "error": e["error"]},
                                          probe_source_of(n), {"what": "does not compile", "first-error": e["text"]})
            if not skip:
                continue
            # the remaining probes still run: grouped build without the failing ones
            ok, exe, log = core.build_harness("h11_probes_%s_partial" % kind, [PROBE_SRC],
                                              ("-w", "-DPTR11_KIND=%d" % kidx) + tuple("-DC11_SKIP_%d=1" % k for k in sorted(skip)), ())
            if not ok:
                continue
            skipped_names[kind] = set(n for k, n in grouped if k in skip)
        rc, out, err = core.sh([exe], timeout=300)
        outs[kind] = (rc, out, err)
    if "raw" in outs:
        ref = q_lines(outs["raw"][1])
        for kind, _ in KINDS:
            if kind not in outs:
                continue
            rc, out, err = outs[kind]
            got = q_lines(out)
            if rc != 0:
                last = (out.strip().splitlines() or ["?"])[-1].split()[:2]
                n_bad += report_probe(res, {"harness": "c11_probe", "found_by": "crash", "probe": " ".join(last[1:]), "pointer": kind},
                                      probe_source_of(last[1] if len(last) > 1 else ""), {"what": "exit/signal %s: %s" % (rc, err.strip().splitlines()[-1:] or "")})
            for name, lines in ref.items():
                if name in skipped_names.get(kind, ()) or name == "probes":
                    continue
                if name not in got and rc != 0:
                    continue                      # not reached: the crash is reported above
                stats["probe_lines_compared"] += 1
                if got.get(name) != lines:
                    n_bad += report_probe(res, {"harness": "c11_probe", "found_by": "run", "probe": name, "pointer": kind},
                                          probe_source_of(name),
                                          {"what": "result differs from the same program over raw pointers",
                                           "raw-pointer-said": "\n".join(lines), "this-pointer-said": "\n".join(got.get(name, ["<nothing>"]))})
    # isolated probes: built alone; those that build for every pointer type are run and compared too
    for k, n in isolated:
        b = {kind: builds["iso%d_%s" % (k, kind)] for kind, _ in KINDS}
        if not b["raw"][0]:
            stats["probe_compile_failures"].append("%s/raw (not a C11 matter: the expression is not available at all)" % n)
            continue
        ref_out = core.sh([b["raw"][1]], timeout=120)[1]
        for kind, _ in KINDS[1:]:
            ok, exe, log = b[kind]
            if not ok:
                e = first_error(log)
                stats["probe_compile_failures"].append("%s/%s" % (n, kind))
                n_bad += report_probe(res, {"harness": "c11_probe", "found_by": "compile", "probe": n, "pointer": kind,
                                            "error_at": e["error_at"], "via": e["via"], "error": e["error"]},
                                      probe_source_of(n), {"what": "does not compile", "first-error": e["text"]})
                continue
            rc, out, err = core.sh([exe], timeout=120)
            stats["probe_lines_compared"] += 1
            if rc != 0 or q_lines(out) != q_lines(ref_out):
                n_bad += report_probe(res, {"harness": "c11_probe", "found_by": "run", "probe": n, "pointer": kind},
                                      probe_source_of(n),
                                      {"what": "result differs from the same program over raw pointers",
                                       "raw-pointer-said": ref_out.strip(), "this-pointer-said": out.strip() or ("exit %s" % rc)})
    return stats, n_bad


# --------------------------------------------------------------------------------------------
# vm_compute cross-check: the POINTER-typed model evaluated inside coqc on a sample of view programs
# --------------------------------------------------------------------------------------------
def vm_crosscheck_ptr(prog_text, obs_text, max_cases):
    """Re-evaluates, with `Eval vm_compute` on the very definitions the theorems are about (Model/PtrAlgebra.v over seg_ptr),
    sizes, strides, num_elements and the three access-path addresses (as seg_diff p root) of a sample of view programs, and
    compares them with what the extracted model printed.  Returns (n checked, [mismatch descriptions])."""
    terms = []
    for cid, b in core.split_cases(prog_text):
        if len(terms) >= max_cases:
            break
        try:
            c, _t, nops, nprobes = vmcheck.case_term(b)
        except (ValueError, IndexError):
            continue
        exts, ops, probes = [], [], []
        for line in b.splitlines():
            q = line.split()
            if not q:
                continue
            if q[0] == "root":
                exts = [(q[2 + 2 * k], q[3 + 2 * k]) for k in range(int(q[1]))]
                probes = []
            elif q[0] == "op":
                ops.append(q[1:])
                probes = []
            elif q[0] == "probe":
                probes.append(q[1:])
        if any(o[0] == "nop" for o in ops):
            continue
        root = "[%s]" % "; ".join("(%s, %s)" % (vmcheck.z(f), vmcheck.z(l)) for f, l in exts)
        pr = "[%s]" % "; ".join("[%s]" % "; ".join(vmcheck.z(x) for x in pb) for pb in probes)
        t = ("match p_run [%s] (mkpview (mk_layout %s) R0) with Some v => [l_sizes (play v); l_strides (play v); [l_num_elements (play v)]] ++ "
             "map (fun idx => [seg_diff (p_addr_brackets seg_ptr seg_add v idx) R0; seg_diff (p_addr_paren seg_ptr seg_add v idx) R0; "
             "seg_diff (p_addr_cursor seg_ptr seg_add v idx) R0]) %s | None => [[-1]] end"
             % ("; ".join(vmcheck.op_term(o) for o in ops), root, pr))
        terms.append((c, t, nops))
    if not terms:
        return 0, []
    d = os.path.join(core.BUILD, "work", PID, "vm")
    os.makedirs(d, exist_ok=True)
    path = os.path.join(d, "c11_cases.v")
    with open(path, "w") as f:
        f.write("From Coq Require Import ZArith List.\nFrom BM Require Import Model.Layout Model.View Model.PtrAlgebra.\nImport ListNotations.\n"
                "Local Open Scope Z_scope.\nDefinition R0 : seg_ptr := (7%nat, 1000).\n"
                "Fixpoint p_run (ops : list op) (v : pview seg_ptr) : option (pview seg_ptr) :=\n"
                "  match ops with [] => Some v | o :: r => match p_apply_op seg_ptr seg_add o v with Some w => p_run r w | None => None end end.\n")
        for k, (c, t, _n) in enumerate(terms):
            f.write("Definition c%d := %s.\nEval vm_compute in c%d.\n" % (k, t, k))
    rc, out, err = core.sh(["coqc", "-Q", core.COQ, "BM", path], cwd=d, timeout=900)
    if rc != 0:
        return 0, ["coqc failed on c11_cases.v: " + (out + err)[-500:]]
    obs = core.by_case(obs_text)
    chunks = re.split(r"^\s*=\s", out, flags=re.M)[1:]
    bad = []
    for (c, _t, nops), ch in zip(terms, chunks):
        body = ch.split(": list")[0]
        rows = [[int(x) for x in re.findall(r"-?\d+", r)] for r in re.findall(r"\[([^\[\]]*)\]", body)]
        exp = vmcheck.expected_from_obs(obs.get(c, []), nops)
        if exp is None:
            continue
        got_strides = rows[1] if len(rows) > 1 else []
        ok = rows[0] == exp[0] and rows[2:] == exp[2:] and len(got_strides) == len(exp[1]) and \
            all(e == "*" or int(e) == g for e, g in zip(exp[1], got_strides))
        if not ok:
            bad.append("%s: vm_compute %r, extracted pointer model %r" % (c, rows[:6], exp[:6]))
    return len(terms), bad


# --------------------------------------------------------------------------------------------
# lifecycle histories (the C04/C06/C08 generators of driver_life) on the three pointer types
# --------------------------------------------------------------------------------------------
LIFE_SRC = "h11_life.cpp"
LIFE_PIDS = ("C04", "C06", "C08", "C09", "C10")


def life_plan(tier):
    q = tier == "quick"
    n = 300 if q else 2000
    mo = 16 if q else 40
    cfgs = [lc.cfg(d=2, t=1), lc.cfg(d=1, t=1, pocca=1, pocma=1, pocs=1, socc=1), lc.cfg(d=3, t=0)]
    if not q:
        cfgs += [lc.cfg(d=2, t=0), lc.cfg(d=4, t=1), lc.cfg(d=3, t=1, ae=1), lc.cfg(d=2, t=1, pocma=1)]
    return [{"kind": k, "cfg": c, "count": n, "maxops": mo} for c in cfgs for k in ("c04", "c06", "c08")]


def life_build_jobs(pool, cfgs, san=()):
    """{(cfg key, pointer kind): future of (ok, exe, log)}"""
    extra = [] if lc.assign_fill_compiles()[0] else ["-DLIFE_NO_ASSIGN_FILL"]
    jobs = {}
    for c in cfgs:
        key = lc.cfg_key(c)
        for kind, kidx in KINDS:
            if (key, kind) in jobs or c["pmr"]:
                continue
            jobs[(key, kind)] = pool.submit(core.build_harness, "h11_life_" + kind, [LIFE_SRC],
                                            tuple(lc.cfg_flags(c) + extra + ["-w", "-DPTR11_KIND=%d" % kidx] + list(san)), (), "g++", 900, "-" + key)
    return jobs


def life_verdict(exes, block):
    """lifecommon's verdict + the K line (violation log / conversions) as its own kind"""
    v = lc.case_verdict(exes, block)
    if v and v[0] == "correspondence" and (v[2] or "").startswith("K "):
        return ("monitor:checked-pointer-violation", v[1], v[2], dict(v[3], kind="pointer-violation"))
    return v


def life_classify(res, kind, exes, prog_text, model_text, impl_text, crashes, max_report=2):
    blocks = dict(core.split_cases(prog_text))
    failing = {}
    for cid, _ml, _il in core.diff_cases(lc.canon(model_text), lc.canon(impl_text)):
        failing.setdefault(cid, None)
    for cid in lc.monitors(impl_text):
        failing.setdefault(cid, None)
    for cid, rc, err in crashes:
        failing[cid] = (rc, err)
    n_reported = 0
    for cid in sorted(failing, key=lambda c: (len(blocks.get(c, "")), c)):
        block = blocks.get(cid)
        if block is None:
            continue
        v = life_verdict(exes, block)
        if not v:
            continue
        found_by, ml, il, rec = v
        record = dict(rec, harness="h11_life", family="life", pointer=kind, found_by=found_by.split(":")[0])
        kf = core.match_known(PID, record)
        if not kf:
            # a finding of the lifecycle properties themselves (same history, same failure on raw pointers) keeps its own entry
            r2 = dict(rec, harness="h_life", found_by=found_by.split(":")[0])
            for pid in LIFE_PIDS:
                kf = kf or core.match_known(pid, r2)
        if kf:
            res.known_finding(kf)
            continue
        if n_reported >= max_report:
            continue
        n_reported += 1
        small, v2 = lc.shrink(exes, block, budget=40)
        if v2:
            found_by, ml, il, rec = v2
        path = core.write_replay(PID, small, {
            "property": PID, "family": "life", "pointer": kind, "tier": res.tier, "seed": res.seed, "found-by": found_by,
            "model-said": ml, "implementation-said": il, "record": rec,
            "note": "lifecycle history (model coq/Model/Life.v) on the %s pointer: same observation stream required, no K line "
                    "(violation log of the checked pointer / to_address / pointer_to); replay: ./check C11 --replay <this file>" % kind})
        res.violation(path, "life/%s %s: model %r impl %r" % (kind, found_by, ml, il))
    return len(failing)



# --------------------------------------------------------------------------------------------
def run(tier, seed, replay=None):
    res = core.Result(PID, tier, seed, level="proof")
    coq = core.coq_check_property(PID)
    core.proof_coverage(res, coq)
    has_ge = c07.ge_probe()
    if has_ge:
        os.environ["C07_HAS_GE"] = "1"
    extra = {"compare": ("-DC07_HAS_GE",) if has_ge else ()}
    thorough = tier == "thorough"
    # ---- builds: model drivers, 4 families x 3 pointer types, probes ----
    ok_d, log_d = core.ensure_driver()
    ok_c, log_c = ensure_c11_driver()
    ok_l, log_l = lc.ensure_driver()
    ok_a, log_a = c03.ensure_driver()
    for ok, step, log in ((ok_d, "build:model-extraction-or-driver", log_d), (ok_c, "build:model-extraction-or-driver-c11", log_c),
                          (ok_l, "build:model-extraction-or-driver-life", log_l), (ok_a, "build:model-extraction-or-driver-c03", log_a)):
        if not ok:
            path = core.write_replay(PID, "", {"property": PID, "found-by": step, "log": log[-3000:]})
            res.violation(path, step, no_input=True)
    if not (ok_d and ok_c and ok_l and ok_a):
        return res.finish()
    core.include_hash()
    san = ("-fsanitize=address,undefined", "-fno-sanitize-recover=all") if thorough else ()
    fams = {(f, kind): Fam(f, kind, kidx, tuple(extra.get(f, ())) + san) for f in FAMILIES for kind, kidx in KINDS}
    grouped, isolated = probe_table()
    pool = cf.ThreadPoolExecutor(max_workers=core.NCPU)
    jobs = {}
    for key, fo in fams.items():
        jobs[key] = pool.submit(core.build_harness, fo.harness, fo.sources, fo.flags, ())
    for kind, kidx in KINDS:
        jobs["probes_" + kind] = pool.submit(core.build_harness, "h11_probes_" + kind, [PROBE_SRC], ("-w", "-DPTR11_KIND=%d" % kidx), ())
        for k, _n in isolated:
            jobs["iso%d_%s" % (k, kind)] = pool.submit(core.build_harness, "h11_iso%d_%s" % (k, kind), [PROBE_SRC],
                                                       ("-w", "-O0", "-DPTR11_KIND=%d" % kidx, "-DC11_ONLY=%d" % k), ())
    replay_text = open(replay).read() if replay else ""
    lplan = life_plan(tier)
    life_cfgs = [pl["cfg"] for pl in lplan]
    if replay:
        life_cfgs = [lc.parse_cfg_line(l) for l in replay_text.splitlines() if l.startswith("cfg ")]
    life_jobs = life_build_jobs(pool, life_cfgs, san)
    builds = {k: j.result() for k, j in jobs.items()}
    life_builds = {k: j.result() for k, j in life_jobs.items()}
    n_build_bad = 0
    life_exes = {kind: {} for kind, _ in KINDS}
    for (key, kind), (ok, exe, log) in life_builds.items():
        if ok:
            life_exes[kind][key] = exe
            continue
        e = first_error(log)
        record = {"harness": "h11_life", "family": "life", "pointer": kind, "found_by": "compile", "error_at": e["error_at"], "via": e["via"], "error": e["error"]}
        kf = core.match_known(PID, record) if kind != "raw" else None
        if kf:
            res.known_finding(kf)
            continue
        path = core.write_replay(PID, "// build step: harness/%s configuration %s with -DPTR11_KIND for the %s pointer\n// %s\n" % (LIFE_SRC, key, kind, e["text"][:300]),
                                 dict(record, **{"property": PID, "first-error": e["text"], "log": log[-2500:],
                                                 "what": "the lifecycle harness does not compile with the %s pointer" % kind}))
        res.violation(path, "lifecycle harness (%s) does not compile with the %s pointer: %s" % (key, kind, e["text"]), no_input=True)
        n_build_bad += 1
    for key, fo in fams.items():
        ok, exe, log = builds[key]
        fo.exe = exe if ok else None
        if ok:
            continue
        e = first_error(log)
        if fo.kind == "raw":
            path = core.write_replay(PID, "// build step: harness/%s (raw pointers)\n// %s\n" % (fo.sources[0], e["text"][:300]),
                                     {"property": PID, "found-by": "build:harness-%s-does-not-compile-against-%s" % (fo.harness, core.INCLUDE), "log": log[-3000:]})
            res.violation(path, "harness does not build", no_input=True)
            n_build_bad += 1
        else:
            record = {"harness": "h11_" + fo.fam, "family": fo.fam, "pointer": fo.kind, "found_by": "compile", "error_at": e["error_at"], "via": e["via"], "error": e["error"]}
            kf = core.match_known(PID, record)
            if kf:
                res.known_finding(kf)
            else:
                path = core.write_replay(PID, "// build step: harness/%s with -DPTR11_KIND for the %s pointer\n// %s\n" % (fo.sources[0], fo.kind, e["text"][:300]),
                                         dict(record, **{"property": PID, "first-error": e["text"], "log": log[-2500:],
                                                               "what": "the %s programs compile with T* but not with the %s pointer" % (fo.fam, fo.kind)}))
                res.violation(path, "%s harness does not compile with the %s pointer: %s" % (fo.fam, fo.kind, e["text"]), no_input=True)
                n_build_bad += 1

    if replay:
        text = replay_text
        fam = family_of_text(text)
        block = "".join(l + "\n" for l in text.splitlines() if not l.startswith("#"))
        if not re.search(r"^case ", block, re.M):
            block = ""          # a replay that names a build / probe step, not a program
        bad = False
        if fam == "life" and block:
            for kind, _ in KINDS:
                for _cid, b in core.split_cases(block):
                    v = life_verdict(life_exes[kind], b)
                    print("replay verdict [life/%s]:" % kind, (v[0], v[1], v[2]) if v else "agrees (no violation)")
                    if v:
                        res.violation(os.path.relpath(os.path.abspath(replay), core.VERIF), "life/%s %s" % (kind, v[0]))
            return res.finish()
        for kind, _ in KINDS if block else []:
            fo = fams[(fam, kind)]
            if fo.exe is None:
                print("replay verdict [%s/%s]: harness not built" % (fam, kind))
                continue
            r = fo.case_fails(block) if block.strip() else False
            print("replay verdict [%s/%s]:" % (fam, kind), r if r else ("outside the documented domain" if r is None else "agrees (no violation)"))
            if r:
                bad = True
                res.violation(os.path.relpath(os.path.abspath(replay), core.VERIF), "%s/%s %s" % (fam, kind, r))
        if not block.strip():
            # the step (harness builds above, probes here) is re-run
            stats, n_bad = run_probes(res, builds, pool)
            print("replay verdict [build steps]:", "%d harness(es) do not build" % n_build_bad if n_build_bad else "all harnesses build")
            print("replay verdict [probes]:", "violations" if n_bad else "agree (no violation)")
        return res.finish()

    # ---- probes ----
    probe_stats, n_probe_bad = run_probes(res, builds, pool)

    # ---- program families ----
    count = {"views": 1500, "iters": 1500, "assign": 1500, "compare": 1500, "algos": 3000} if not thorough else \
            {"views": 60000, "iters": 45000, "assign": 45000, "compare": 45000, "algos": 90000}
    edge = 500 if not thorough else 15000
    gen_extra = {
        "views": ["--maxops", "6" if not thorough else "9"],
        "iters": ["--maxops", "4" if not thorough else "6", "--maxsteps", "12" if not thorough else "20"],
        "assign": ["--maxops", "4" if not thorough else "6", "--maxrank", "3" if not thorough else "4"],
        "compare": ["--has-ge"] if has_ge else [],
        # the row shapes that multi::array cannot hold (C03's own known finding) are left to C03
        "algos": ["--maxops", "4" if not thorough else "6", "--maxrank", "3", "--primpct", "40", "--collapsepct", "0"],
    }
    totals = {"evaluations": 0, "lines": 0, "failing": 0, "ptr_model_lines": 0}
    dists, per_family, samples, distinct = {}, {}, [], 0

    def do_family(f):
        fo0 = fams[(f, "raw")]
        out = {"failing": 0}
        prog_g, obs_g, dist = fo0.generate(seed, count[f], extra=gen_extra[f], prefix=f[0])
        # the broadcast probe of C01 is not part of the pointer replay (the h11_* copies do not implement it)
        prog_g = "".join(l for l in prog_g.splitlines(True) if not l.startswith("bprobe"))
        obs_g = "".join(l for l in obs_g.splitlines(True) if not l.startswith("Q "))
        obs_g = fo0._norm(obs_g)
        prog, obs = prog_g, obs_g
        dist = dict(dist)
        if f in ("views", "iters"):
            # edge-case generator of the C11 driver (sizes 0/1, base-moving operations, walks to end() and back)
            d = fo0.workdir()
            p, o = os.path.join(d, "edge.prog"), os.path.join(d, "edge.obs")
            rc, so, se = core.sh([os.path.join(core.BIN, "driver_c11"), "gen", "--family", f, "--seed", str(seed), "--count", str(edge),
                                  "--prefix", "e" + f[0], "--prog", p, "--obs", o], timeout=900)
            if rc != 0:
                raise RuntimeError("driver_c11 gen failed: " + se[-2000:])
            import json
            try:
                dist.update({"edge_" + k: v for k, v in json.loads(so.strip().splitlines()[-1]).items()})
            except Exception:
                pass
            eprog = open(p).read()
            eobs_ptr = open(o).read()                 # written by the pointer-typed model
            eobs_int = fo0.model_run(eprog)           # the integer model on the same programs
            out["edge_models_agree"] = (eobs_ptr == eobs_int)
            out["edge_prog"], out["edge_ptr"], out["edge_int"] = eprog, eobs_ptr, eobs_int
            prog, obs = prog + eprog, obs + eobs_int
        out["prog"], out["obs"], out["dist"] = prog, obs, dist
        out["ptr_obs"] = fo0.ptr_model_run(prog) if f not in NO_PTR_MODEL else obs
        out["impl"] = {}
        for kind, _ in KINDS:
            fo = fams[(f, kind)]
            if fo.exe is None:
                continue
            out["impl"][kind] = fo.impl_run(prog) + (fo.raw,)
        return out

    futs = {f: pool.submit(do_family, f) for f in FAMILIES}
    for f in FAMILIES:
        r = futs[f].result()
        prog, obs = r["prog"], r["obs"]
        ncases = len(core.split_cases(prog))
        # (a) pointer-typed model == integer model on every line (executed instance of C11_pointer_parametric)
        pm_bad = core.diff_cases(obs, r["ptr_obs"])
        if f not in NO_PTR_MODEL:
            totals["ptr_model_lines"] += r["ptr_obs"].count("\n")
        if pm_bad:
            blocks = dict(core.split_cases(prog))
            cid, ml, il = pm_bad[0]
            path = core.write_replay(PID, blocks.get(cid, ""), {"property": PID, "family": f, "pointer": "model", "found-by": "ptr-model-vs-int-model",
                                                              "integer-model-said": ml, "pointer-model-said": il,
                                                              "note": "extracted Model/PtrAlgebra.v over seg_ptr disagrees with the integer model: the "
                                                                      "proved theorem C11_pointer_parametric excludes this, so extraction/driver are suspect"})
            res.violation(path, "pointer-typed model differs from integer model (%s): %r vs %r" % (f, ml, il))
            totals["failing"] += len(pm_bad)
        # (b) the library on the three pointer types == the model; monitors; violation log empty
        fam_fail = {}
        for kind, _ in KINDS:
            if kind not in r["impl"]:
                continue
            impl_text, crashes, raw = r["impl"][kind]
            fo = fams[(f, kind)]
            fo.raw = raw
            nf = classify(res, fo, prog, obs, impl_text, crashes)
            fam_fail[kind] = nf
            totals["failing"] += nf
            totals["evaluations"] += ncases
            totals["lines"] += obs.count("\n")
        hp, ml = FAMILIES[f][6], FAMILIES[f][5]
        distinct += progcheck.distinct_nontrivial(prog, min_lines=ml, prefixes=hp)
        dists[f] = r["dist"]
        per_family[f] = {"cases": ncases, "observation_lines": obs.count("\n"), "disagreeing_cases_per_pointer": fam_fail,
                         "pointer_model_equals_integer_model": (not pm_bad) if f not in NO_PTR_MODEL else "n/a (no pointer-typed model of this family)"}
        samples += progcheck.samples(prog, n=1, min_lines=6)
    # ---- vm_compute cross-check of the pointer-typed model (bounds the trust in extraction and in c11_run.ml) ----
    rv = futs["views"].result()
    n_vm, vm_bad = vm_crosscheck_ptr(rv["prog"], rv["ptr_obs"], 40 if not thorough else 400)
    if vm_bad:
        path = core.write_replay(PID, "", {"property": PID, "found-by": "extraction:vm_compute-disagrees-with-the-extracted-pointer-model",
                                           "log": "\n".join(vm_bad[:10])})
        res.violation(path, "vm_compute cross-check failed: " + vm_bad[0], no_input=True)
        totals["failing"] += len(vm_bad)

    # ---- lifecycle histories (fault-free, generators of C04 / C06 / C08) ----
    life_progs = [lc.generate(pl["kind"], pl["cfg"], seed + 104729 * k, pl["count"], pl["maxops"], "l%d_" % k, faults=0) for k, pl in enumerate(lplan)]
    life_prog = "".join(life_progs)
    life_model = lc.model_run(life_prog)
    life_cases = len(core.split_cases(life_prog))
    life_fail = {}
    life_futs = {kind: pool.submit(lc.impl_run, life_exes[kind], life_prog, max(2, core.NCPU // 3)) for kind, _ in KINDS if life_exes[kind]}
    for kind, fut in life_futs.items():
        impl_text, crashes = fut.result()
        life_fail[kind] = life_classify(res, kind, life_exes[kind], life_prog, life_model, impl_text, crashes)
        totals["failing"] += life_fail[kind]
        totals["evaluations"] += life_cases
        totals["lines"] += life_model.count("\n")
    distinct += lc.distinct_nontrivial(life_prog)
    dists["life"] = {"operations": lc.op_histogram(life_prog), "shapes": lc.shape_stats(life_prog),
                     "configurations": sorted({lc.cfg_text(pl["cfg"]) for pl in lplan})}
    per_family["life"] = {"cases": life_cases, "observation_lines": life_model.count("\n"), "disagreeing_cases_per_pointer": life_fail,
                          "executables": sum(len(v) for v in life_exes.values())}
    samples += lc.samples(life_prog, n=1)
    pool.shutdown(wait=False)

    n_failing = totals["failing"] + n_probe_bad + n_build_bad
    if not coq["ok"] and n_failing == 0:
        path = core.write_replay(PID, "", {"property": PID, "found-by": "proof:Properties_%s.v" % PID, "log": coq["log"][-3000:],
                                           "obligations": coq["obligations"], "discharged": coq["discharged"]})
        res.violation(path, "proof obligations no longer check", no_input=True)
    res.coverage.update({
        "evaluations": totals["evaluations"],
        "distinct_nontrivial": distinct,
        "rule": "four program families (C01 view programs with index probes, C02 iterator walks on begin()/end() and elements(), C05 "
                "assignment/fill/swap/move/list-assignment between guarded roots, C07 all relational operators on three operands) drawn by "
                "the view-family driver with the C01/C02/C05/C07 distributions (%s programs per family), plus for views and iterators %d "
                "programs each from the C11 edge generator (extents 0..5 with 0 and 1 frequent, operations that move the base pointer, "
                "walks that go to end() and back, it[k] at the first/last valid position); every program runs on T*, fancy_ptr<T> and "
                "checked_ptr<T>; an evaluation = one program on one pointer type; non-trivial = the C01/C02/C05/C07 rules (>= 2 "
                "operations / >= 6 walk lines / ...); distinct by hash of the program without probes; plus %d C03 programs (views of rank "
                "1..3 through 0..4 operations, 40%% primitive scripts, 60%% one of the 20 standard algorithms, compared with the C03 model "
                "and the std::vector twin); plus fault-free lifecycle histories (pool of 6 arrays; generators of C04, C06 and C08: every "
                "constructor form, copy/move, assignment over any prior state, swap, reextent x3, clear, reshape, assign, destroy; %d "
                "histories of up to %d operations for each of %d configurations of rank / element type / allocator traits), observed "
                "after every operation" % (count["views"], edge, count["algos"], lplan[0]["count"], lplan[0]["maxops"], len(lplan) // 3),
        "samples": samples[:4],
        "generator_distribution": dists,
        "observation_lines_compared": totals["lines"],
        "pointer_model_lines_compared_with_integer_model": totals["ptr_model_lines"],
        "view_programs_re_evaluated_by_vm_compute_in_coqc": n_vm,
        "per_family": per_family,
        "pointer_types": ["T* (std::allocator)", "ptr11::fancy_ptr<T> (offset from per-type arena origin; fancy_alloc)",
                          "ptr11::checked_ptr<T> ([lo,hi) provenance; checked_alloc with block ledger)"],
        "probes": probe_stats,
        "disagreeing_cases": n_failing,
        "not_exercised": ["reinterpret_array_cast<T2>() (needs a user-supplied reinterpret_pointer_cast for the pointer type: documented "
                          "customisation point)", "operator< between views over DIFFERENT pointer types (not defined; == is)",
                          "index bases other than 0 (C19 replays those on raw pointers)", "stenciled/blocked (re-based results)",
                          "taked() for D > 1 on const views (does not compile at the pinned commit, C01)",
                          "proxy references (the property fixes proxy-free references)",
                          "lifecycle histories with injected faults (C09) and pmr configurations (their pointer is T* by definition)",
                          "C03 rows whose shape multi::array cannot hold (C03's own known finding, identical on every pointer type)"],
    })
    res.assumptions = ["no 64-bit overflow in index arithmetic", "g++ 12 / libstdc++ as installed",
                       "pointer types satisfy the torsor laws (premises of the C11 theorems): fancy_ptr and checked_ptr do by construction",
                       "conformance of the library's templates to the pointer concept is established on three pointer types, not for all (DESIGN 5/C11: partial)"]
    return res.finish()

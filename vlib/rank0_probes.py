"""The rank-0 compile/run probe matrix (C04, C05, C07 at dimensionality 0).

One small translation unit per expression, against `core.INCLUDE`; `-fsyntax-only` to know whether the operation exists on the
tree under test, and (matrix mode) a run that records what it does: element values, block identities, and the counters of
the instrumented element type and allocator of harness/common/life_tracked_*.hpp.

A probe = dict(id, props, setup, stmt, obs, expect, feature, note):
  props    which of C04 / C05 / C07 need the operation ([] = recorded only, never a violation)
  setup    statements before the counters are reset;  stmt: the operation under test;  obs: observation statements
  expect   {label: text} the values the properties require (checked in matrix mode and by `selftest`)
  feature  the feature macro of harness/h_rank0.cpp that is switched off when the probe does not compile (None: no macro)
Types (harness/common/rank0_common.hpp): E element, A allocator, Arr = array<E,0,A>, SArr = static_array<E,0,A>,
ArrC = array<CE,0,..> (convertible element type), Ref = array_ref<E,0>, CRef = array_ref<E,0,E const*>, X0 = extensions_t<0>."""
import concurrent.futures as cf
import hashlib
import os
import threading

from . import core

PROBE_DIR = os.path.join(core.BUILD, "rank0_probes")


def P(pid, props, setup, stmt, obs="", expect=None, feature=None, note="", counts=None):
    return {"id": pid, "props": props, "setup": setup, "stmt": stmt, "obs": obs, "expect": expect or {},
            "feature": feature, "note": note, "counts": counts or {}}


A3 = "Arr a(E(3));"
AB = "Arr a(E(3)); Arr b(E(5));"
XR = "E x(3); Ref r(&x, {});"
XRYS = "E x(3); E y(5); Ref r(&x, {}); Ref s(&y, {});"
OA = 'obsa("a", a);'
OAB = 'obsa("a", a); obsa("b", b);'


def construction():
    c4 = ["C04"]
    return [
        P("ctor.default", c4, "", "Arr a;", 'obs("n", a.num_elements()); ' + ("obsa(\"a\", a);"), {"n": "1"}, "CTOR_DEFAULT",
          "array<T,0>{} holds one value-initialised element"),
        P("ctor.alloc", c4, "", "Arr a(A(7));", 'obs("n", a.num_elements()); obs("al", a.get_allocator().id);', {"n": "1", "al": "7"},
          "CTOR_ALLOC", "array<T,0>(alloc)"),
        P("ctor.exts", c4, "", "Arr a(X0{});", 'obs("n", a.num_elements()); obsa("a", a);', {"n": "1"}, "CTOR_EXTS"),
        P("ctor.exts_alloc", c4, "", "Arr a(X0{}, A(7));", 'obs("n", a.num_elements()); obs("al", a.get_allocator().id);',
          {"n": "1", "al": "7"}, "CTOR_EXTS_ALLOC"),
        P("ctor.elem", c4, "E v(3);", "Arr a(v);", OA, {"a": "3"}, None, "explicit array(element const&)"),
        P("ctor.elem_alloc", c4, "E v(3);", "Arr a(v, A(7));", OA + ' obs("al", a.get_allocator().id);', {"a": "3", "al": "7"},
          "CTOR_ELEM_ALLOC"),
        P("ctor.exts_elem", c4, "E v(3);", "Arr a(X0{}, v);", OA, {"a": "3"}, "CTOR_EXTS_ELEM"),
        P("ctor.braces_elem", [], "E v(3);", "Arr a({}, v);", OA, {"a": "3"}, None, "the spelling of test/zero_dimensionality.cpp"),
        P("ctor.exts_elem_alloc", c4, "E v(3);", "Arr a(X0{}, v, A(7));", OA + ' obs("al", a.get_allocator().id);',
          {"a": "3", "al": "7"}, "CTOR_EXTS_ELEM_ALLOC"),
        P("ctor.conv_elem", c4, "", "Arr a(CE(3));", OA, {"a": "3"}, "CTOR_CONV_ELEM", "from a value of a convertible type"),
        P("ctor.conv_elem_implicit", [], "", "Arr a = CE(3);", OA, {"a": "3"}),
        P("ctor.copy", c4, A3, "Arr b(std::as_const(a));", OAB + ' obs("distinct", a.base() != b.base());',
          {"a": "3", "b": "3", "distinct": "1"}, "CTOR_COPY"),
        P("ctor.copy_nonconst", c4, A3, "Arr b(a);", OAB + ' obs("distinct", a.base() != b.base());',
          {"a": "3", "b": "3", "distinct": "1"}, "CTOR_COPY_NC", "copy from a non-const lvalue"),
        P("ctor.copy_init", c4, A3, "Arr b = a;", OAB, {"a": "3", "b": "3"}, "CTOR_COPY_NC"),
        P("ctor.copy_alloc", ["C04"], A3, "Arr b(std::as_const(a), A(7));", OAB + ' obs("al", b.get_allocator().id);',
          {"a": "3", "b": "3", "al": "7"}, "CTOR_COPY_ALLOC", "allocator-extended copy"),
        P("ctor.move", c4, A3, "Arr b(std::move(a));", 'obs("b", val_at(b)); obs("distinct", a.base() != b.base());',
          {"b": "3", "distinct": "1"}, "CTOR_MOVE"),
        P("ctor.move_alloc", [], A3, "Arr b(std::move(a), A(0));", 'obs("b", val_at(b));', {"b": "3"}, "CTOR_MOVE_ALLOC",
          "allocator-extended move (C10's)"),
        P("ctor.from_ref", c4, XR, "Arr b(r);", 'obsa("b", b); obse("x", x);', {"b": "3", "x": "3"}, "CTOR_FROM_REF",
          "from array_ref<T,0>"),
        P("ctor.from_ref_rvalue", c4, "E x(3);", "Arr b(Ref(&x, {}));", 'obsa("b", b); obse("x", x);', {"b": "3", "x": "3"},
          "CTOR_FROM_REF_RV"),
        P("ctor.from_const_ref", c4, "E x(3); Ref const r(&x, {});", "Arr b(r);", 'obsa("b", b); obse("x", x);',
          {"b": "3", "x": "3"}, "CTOR_FROM_CONST_REF", "from array_ref<T,0> const"),
        P("ctor.from_cref", c4, "E x(3); CRef r(&x, {});", "Arr b(r);", 'obsa("b", b); obse("x", x);', {"b": "3", "x": "3"},
          "CTOR_FROM_CREF", "from array_ref<T,0,T const*>"),
        P("ctor.from_ref_alloc", c4, XR, "Arr b(r, A(7));", 'obsa("b", b); obs("al", b.get_allocator().id);',
          {"b": "3", "al": "7"}, "CTOR_FROM_REF_ALLOC"),
        P("ctor.from_sub", c4, A3, "Arr b(a());", OAB, {"a": "3", "b": "3"}, "CTOR_FROM_SUB", "from subarray<T,0> (a())"),
        P("ctor.from_sub_const", c4, A3, "Arr b(std::as_const(a)());", OAB, {"a": "3", "b": "3"}, "CTOR_FROM_SUB_CONST"),
        P("ctor.from_named_sub", c4, A3 + " auto&& s = a();", "Arr b(s);", OAB, {"a": "3", "b": "3"}, "CTOR_FROM_NAMED_SUB"),
        P("ctor.from_conv_array", c4, "ArrC c(CE(3));", "Arr b(c);", 'obsa("b", b);', {"b": "3"}, "CTOR_FROM_CONV_ARRAY",
          "from an array of a convertible element type"),
        P("ctor.from_conv_array_alloc", c4, "ArrC c(CE(3));", "Arr b(c, A(7));", 'obsa("b", b); obs("al", b.get_allocator().id);',
          {"b": "3", "al": "7"}, "CTOR_FROM_CONV_ARRAY_ALLOC"),
        P("ctor.static_elem", [], "E v(3);", "SArr a(v);", OA, {"a": "3"}),
        P("ctor.static_copy", [], "SArr a(E(3));", "SArr b(std::as_const(a));", OAB, {"a": "3", "b": "3"}),
        P("ctor.static_move", [], "SArr a(E(3));", "SArr b(std::move(a));", 'obs("b", val_at(b));', {"b": "3"}),
        P("dtor", c4, "", "{ Arr a(E(3)); }", "", {}, None, "destruction returns the element and the block"),
    ]


def assignment():
    c4 = ["C04"]
    return [
        P("assign.copy", c4, AB, "a = std::as_const(b);", OAB + ' obs("distinct", a.base() != b.base());',
          {"a": "5", "b": "5", "distinct": "1"}, "ASSIGN_COPY"),
        P("assign.copy_nonconst", c4, AB, "a = b;", OAB, {"a": "5", "b": "5"}, "ASSIGN_COPY_NC"),
        P("assign.move", c4, AB, "a = std::move(b);", 'obsa("a", a);', {"a": "5"}, "ASSIGN_MOVE"),
        P("assign.self_copy", c4, A3, "a = std::as_const(a);", OA, {"a": "3"}, "ASSIGN_SELF_COPY"),
        P("assign.self_move", c4, A3, "a = std::move(a);", 'obs("a", val_at(a));', {"a": "3"}, "ASSIGN_SELF_MOVE"),
        P("assign.elem", c4, A3 + " E v(7);", "a = v;", OA, {"a": "7"}, "ASSIGN_ELEM"),
        P("assign.elem_rvalue", c4, A3, "a = E(7);", OA, {"a": "7"}, "ASSIGN_ELEM_RV"),
        P("assign.conv_elem", c4, A3, "a = CE(7);", OA, {"a": "7"}, "ASSIGN_CONV_ELEM"),
        P("assign.from_ref", c4, A3 + " E x(7); Ref r(&x, {});", "a = r;", OA + ' obse("x", x);', {"a": "7", "x": "7"},
          "ASSIGN_FROM_REF", "array = array_ref<T,0>"),
        P("assign.from_const_ref", c4, A3 + " E x(7); Ref const r(&x, {});", "a = r;", OA + ' obse("x", x);',
          {"a": "7", "x": "7"}, "ASSIGN_FROM_CONST_REF"),
        P("assign.from_cref", c4, A3 + " E x(7); CRef r(&x, {});", "a = r;", OA + ' obse("x", x);', {"a": "7", "x": "7"},
          "ASSIGN_FROM_CREF"),
        P("assign.from_sub", c4, AB, "a = b();", OAB, {"a": "5", "b": "5"}, "ASSIGN_FROM_SUB", "array = subarray<T,0>"),
        P("assign.from_conv_array", c4, A3 + " ArrC c(CE(7));", "a = c;", OA, {"a": "7"}, "ASSIGN_FROM_CONV_ARRAY"),
        P("assign.static_copy", [], "SArr a(E(3)); SArr b(E(5));", "a = std::as_const(b);", OAB, {"a": "5", "b": "5"}),
        P("assign.static_move", [], "SArr a(E(3)); SArr b(E(5));", "a = std::move(b);", OA, {"a": "5"}),
    ]


def swap_decay_conv():
    c4 = ["C04"]
    c45 = ["C04", "C05"]
    return [
        P("swap.std", c4, AB, "using std::swap; swap(a, b);", OAB, {"a": "5", "b": "3"}, "SWAP_STD", "using std::swap; swap(a, b)"),
        P("swap.adl", c4, AB, "swap(a, b);", OAB, {"a": "5", "b": "3"}, "SWAP_ADL", "unqualified swap(a, b)"),
        P("swap.member", c4, AB, "a.swap(b);", OAB, {"a": "5", "b": "3"}, "SWAP_MEMBER", "a.swap(b)"),
        P("swap.std_qualified", [], AB, "std::swap(a, b);", OAB, {"a": "5", "b": "3"}),
        P("decay.uplus", c4, A3, "auto c = +a;", 'obs("is_array", std::is_same_v<decltype(c), Arr>); obs("c", val_of(static_cast<E const&>(c)));',
          {"c": "3"}, "UPLUS", "unary plus of an array"),
        P("decay.uplus_const", c4, A3, "auto c = +std::as_const(a);", 'obs("c", val_of(static_cast<E const&>(c)));', {"c": "3"}, "UPLUS_CONST"),
        P("decay.decay", c4, A3, "auto c = a.decay();", 'obs("is_elem", std::is_same_v<decltype(c), E>); obs("c", val_of(static_cast<E const&>(c)));',
          {"c": "3"}, "DECAY", "decay() (an element at rank 0)"),
        P("decay.uplus_ref", c4, XR, "auto c = +r;", 'obs("c", val_of(static_cast<E const&>(c)));', {"c": "3"}, "UPLUS_REF"),
        P("decay.decay_ref", c4, XR, "auto c = r.decay();", 'obs("c", val_of(static_cast<E const&>(c)));', {"c": "3"}, "DECAY_REF"),
        # conversion to the element, all value categories
        P("conv.lvalue", c4, A3, "E& e = a;", 'obs("same", &e == a.base()); obse("e", e);', {"same": "1", "e": "3"}, "CONV_LVALUE"),
        P("conv.const_lvalue", c4, A3, "E const& e = std::as_const(a);", 'obs("same", &e == a.base()); obse("e", e);',
          {"same": "1", "e": "3"}, "CONV_CONST_LVALUE"),
        P("conv.rvalue", c4, A3, "E e = std::move(a);", 'obse("e", e);', {"e": "3"}, "CONV_RVALUE", "moves the element out"),
        P("conv.rvalue_ref", c4, A3, "E&& e = std::move(a);", 'obs("same", &e == a.base()); obse("e", e);', {"same": "1", "e": "3"}, "CONV_RVALUE_REF"),
        P("conv.static_cast", c4, A3, "E e = static_cast<E>(a);", 'obse("e", e); obsa("a", a);', {"e": "3", "a": "3"}, "CONV_STATIC_CAST"),
        P("conv.copy_init_from_const", c4, A3, "E e = std::as_const(a);", 'obse("e", e); obsa("a", a);', {"e": "3", "a": "3"}, "CONV_COPY_INIT"),
        P("conv.brace", [], A3, "auto e = E{std::as_const(a)};", 'obse("e", e);', {"e": "3"}, None, "int{arr} of test/zero_dimensionality.cpp"),
        P("conv.other_elem", c4, "ArrC c(CE(3));", "long e = static_cast<long>(c);", 'obs("e", e);', {"e": "3"}, "CONV_OTHER", "explicit conversion to another type"),
        P("conv.ref_lvalue", c45, XR, "E& e = r;", 'obs("same", &e == &x);', {"same": "1"}, "CONV_REF_LVALUE"),
        P("conv.ref_const_lvalue", c45, "E x(3); Ref const r(&x, {});", "E const& e = r;", 'obs("same", &e == &x);', {"same": "1"}, "CONV_REF_CONST_LVALUE"),
        P("conv.ref_rvalue", c45, "E x(3);", "E& e = Ref(&x, {});", 'obs("same", &e == &x);', {"same": "1"}, "CONV_REF_RVALUE"),
        P("conv.ref_static_cast", c45, XR, "E e = static_cast<E>(r);", 'obse("e", e);', {"e": "3"}, "CONV_REF_STATIC_CAST"),
        P("conv.cref", c45, "E x(3); CRef r(&x, {});", "E const& e = r;", 'obs("same", &e == &x);', {"same": "1"}, "CONV_CREF"),
        # element write
        P("write.conv", c45, A3, "static_cast<E&>(a) = E(9);", OA, {"a": "9"}, "WRITE_CONV", "write through the conversion"),
        P("write.call", c45, A3, "a() = E(9);", OA, {"a": "9"}, "WRITE_CALL", "write through operator()"),
        P("write.call_conv", c45, A3, "a() = CE(9);", OA, {"a": "9"}, "WRITE_CALL_CONV"),
        P("write.data_elements", c45, A3, "*a.data_elements() = E(9);", OA, {"a": "9"}, "WRITE_DATA"),
        P("write.base", c45, A3, "*a.base() = E(9);", OA, {"a": "9"}, "WRITE_BASE"),
        P("write.ref_conv", c45, XR, "static_cast<E&>(r) = E(9);", 'obse("x", x);', {"x": "9"}, "WRITE_REF_CONV"),
        P("write.ref_call", c45, XR, "r() = E(9);", 'obse("x", x);', {"x": "9"}, "WRITE_REF_CALL"),
        P("read.call", c45, A3, "E e = a();", 'obse("e", e); obsa("a", a);', {"e": "3", "a": "3"}, "READ_CALL"),
        P("read.call_const", c45, A3, "E e = std::as_const(a)();", 'obse("e", e); obsa("a", a);', {"e": "3", "a": "3"}, "READ_CALL_CONST"),
        P("read.ref_call", c45, XR, "E e = r();", 'obse("e", e);', {"e": "3"}, "READ_REF_CALL"),
    ]


def queries():
    c = ["C04", "C05", "C07"]
    out = []
    for who, setup in (("arr", A3), ("carr", A3 + " Arr const& q = a;"), ("ref", XR), ("cref", "E x(3); CRef r(&x, {});")):
        o = {"arr": "a", "carr": "q", "ref": "r", "cref": "r"}[who]
        ft = "Q_" + who.upper()
        out += [
            P("query.%s.num_elements" % who, c, setup, "auto n = %s.num_elements();" % o, 'obs("n", long(n));', {"n": "1"}, ft + "_NUM_ELEMENTS"),
            P("query.%s.num_elements_free" % who, c, setup, "auto n = num_elements(%s);" % o, 'obs("n", long(n));', {"n": "1"}, ft + "_NUM_ELEMENTS_FREE"),
            P("query.%s.extensions" % who, c, setup, "auto e = %s.extensions();" % o,
              'obs("is_x0", std::is_same_v<decltype(e), X0>); obs("eq", e == X0{});', {"is_x0": "1", "eq": "1"}, ft + "_EXTENSIONS"),
            P("query.%s.sizes" % who, c, setup, "auto e = %s.sizes();" % o, 'obs("rank", long(std::tuple_size_v<decltype(e)>));',
              {"rank": "0"}, ft + "_SIZES"),
            P("query.%s.is_empty" % who, c, setup, "bool e = %s.is_empty();" % o, 'obs("e", e);', {"e": "0"}, ft + "_IS_EMPTY"),
            P("query.%s.dimensionality" % who, c, setup, "constexpr auto d = std::decay_t<decltype(%s)>::dimensionality;" % o,
              'obs("d", long(d));', {"d": "0"}, None),
            P("query.%s.base" % who, c, setup, "auto p = %s.base();" % o, 'obs("v", val_of(*p));', {"v": "3"}, ft + "_BASE"),
            P("query.%s.data_elements" % who, c, setup, "auto p = %s.data_elements();" % o, 'obs("v", val_of(*p));', {"v": "3"}, ft + "_DATA_ELEMENTS"),
            P("query.%s.size" % who, [], setup, "auto n = %s.size();" % o, 'obs("n", long(n));', {}, None, "size() is deleted at rank 0 (no leading dimension)"),
            P("query.%s.layout" % who, [], setup, "auto l = %s.layout();" % o, 'obs("n", long(l.num_elements()));', {"n": "1"}, None),
        ]
    return out


CMP_OPS = [("eq", "=="), ("ne", "!="), ("lt", "<"), ("le", "<="), ("gt", ">"), ("ge", ">=")]


def cmp_expect(op, l, r):
    return {"==": l == r, "!=": l != r, "<": l < r, "<=": l <= r, ">": l > r, ">=": l >= r}[op]


def comparisons():
    """Every relational operator on every pairing of ownership kind / constness the property names, on the value pairs
    (3,5), (5,3), (4,4): the three truth values are printed."""
    c7 = ["C07"]
    decl = {
        "arr": "Arr {n}(E({v}));",
        "carr": "Arr const {n}(E({v}));",
        "ref": "E x{n}({v}); Ref {n}(&x{n}, {{}});",
        "constref": "E x{n}({v}); Ref const {n}(&x{n}, {{}});",
        "cref": "E x{n}({v}); CRef {n}(&x{n}, {{}});",
        "sub": "Arr o{n}(E({v})); auto&& {n} = o{n}();",
        "elem": "E {n}({v});",
        "celem": "E const {n}({v});",
        "convarr": "ArrC {n}(CE({v}));",
        "convelem": "CE {n}({v});",
    }
    pairs = [("arr", "arr"), ("carr", "carr"), ("arr", "carr"), ("carr", "arr"),
             ("arr", "ref"), ("ref", "arr"), ("carr", "constref"), ("arr", "cref"), ("cref", "arr"),
             ("ref", "ref"), ("constref", "constref"), ("ref", "cref"), ("cref", "ref"), ("cref", "cref"),
             ("sub", "sub"), ("arr", "sub"), ("sub", "arr"), ("ref", "sub"),
             ("arr", "elem"), ("elem", "arr"), ("carr", "celem"), ("celem", "carr"),
             ("ref", "elem"), ("elem", "ref"), ("cref", "elem"), ("sub", "elem"),
             ("arr", "convarr"), ("arr", "convelem")]
    required = {("arr", "arr"), ("carr", "carr"), ("arr", "carr"), ("carr", "arr"), ("arr", "ref"), ("ref", "arr"),
                ("carr", "constref"), ("ref", "ref"), ("constref", "constref"), ("arr", "elem"), ("elem", "arr"),
                ("carr", "celem"), ("celem", "carr"), ("arr", "cref"), ("cref", "arr"), ("ref", "cref"), ("cref", "ref"),
                ("cref", "cref"), ("ref", "elem"), ("elem", "ref")}
    out = []
    for lk, rk in pairs:
        for name, op in CMP_OPS:
            setup, stmt, exp = "", "", {}
            for k, (lv, rv) in enumerate(((3, 5), (5, 3), (4, 4))):
                setup += decl[lk].format(n="l%d" % k, v=lv) + " " + decl[rk].format(n="r%d" % k, v=rv) + " "
                stmt += "bool t%d = (l%d %s r%d); " % (k, k, op, k)
                exp["t%d" % k] = "1" if cmp_expect(op, lv, rv) else "0"
            obs = " ".join('obs("t%d", t%d);' % (k, k) for k in range(3))
            out.append(P("cmp.%s_%s.%s" % (lk, rk, name), c7 if (lk, rk) in required else [], setup, stmt, obs, exp,
                         None, "%s %s %s" % (lk, op, rk)))
    return out


def through_refs():
    c5 = ["C05"]
    G = "E g[3] = {E(1), E(2), E(3)}; Ref r(&g[1], {}); "
    OG = 'obse("g0", g[0]); obse("g1", g[1]); obse("g2", g[2]);'
    return [
        P("rassign.ref_ref", c5, G + "E y(5); Ref s(&y, {});", "r = s;", OG + ' obse("y", y);', {"g0": "1", "g1": "5", "g2": "3", "y": "5"},
          "RASSIGN_REF_REF", "ref = ref"),
        P("rassign.ref_constref", c5, G + "E y(5); Ref const s(&y, {});", "r = s;", OG, {"g0": "1", "g1": "5", "g2": "3"}, "RASSIGN_REF_CONSTREF"),
        P("rassign.ref_cref", c5, G + "E y(5); CRef s(&y, {});", "r = s;", OG, {"g0": "1", "g1": "5", "g2": "3"}, "RASSIGN_REF_CREF",
          "ref = read-only ref"),
        P("rassign.ref_moved_ref", c5, G + "E y(5); Ref s(&y, {});", "r = std::move(s);", OG + ' obs("y", val_of(y));',
          {"g0": "1", "g1": "5", "g2": "3", "y": "5"}, "RASSIGN_REF_MOVED_REF", "ref = std::move(ref) copies (a reference does not own)"),
        P("rassign.rvalue_ref_ref", c5, "E g[3] = {E(1), E(2), E(3)}; E y(5); Ref s(&y, {});", "Ref(&g[1], {}) = s;", OG,
          {"g0": "1", "g1": "5", "g2": "3"}, "RASSIGN_RVALUE_REF_REF", "temporary reference on the left"),
        P("rassign.ref_self", c5, G, "r = r;", OG, {"g0": "1", "g1": "2", "g2": "3"}, "RASSIGN_REF_SELF"),
        P("rassign.ref_alias", c5, G + "Ref s(&g[1], {});", "r = s;", OG, {"g0": "1", "g1": "2", "g2": "3"}, "RASSIGN_REF_ALIAS",
          "two references to one element"),
        P("rassign.ref_elem", c5, G + "E v(5);", "r = v;", OG, {"g0": "1", "g1": "5", "g2": "3"}, "RASSIGN_REF_ELEM", "ref = element"),
        P("rassign.ref_elem_rvalue", c5, G, "r = E(5);", OG, {"g0": "1", "g1": "5", "g2": "3"}, "RASSIGN_REF_ELEM_RV"),
        P("rassign.ref_conv_elem", c5, G, "r = CE(5);", OG, {"g0": "1", "g1": "5", "g2": "3"}, "RASSIGN_REF_CONV_ELEM"),
        P("rassign.ref_arr", c5, G + "Arr a(E(5));", "r = a;", OG + " " + OA, {"g0": "1", "g1": "5", "g2": "3", "a": "5"}, "RASSIGN_REF_ARR",
          "ref = array"),
        P("rassign.ref_carr", c5, G + "Arr const a(E(5));", "r = a;", OG + " " + OA, {"g0": "1", "g1": "5", "g2": "3", "a": "5"},
          "RASSIGN_REF_CARR"),
        P("rassign.ref_conv_arr", c5, G + "ArrC c(CE(5));", "r = c;", OG, {"g0": "1", "g1": "5", "g2": "3"}, "RASSIGN_REF_CONV_ARR"),
        P("rassign.ref_sub", c5, G + "Arr a(E(5));", "r = a();", OG + " " + OA, {"g0": "1", "g1": "5", "g2": "3", "a": "5"}, "RASSIGN_REF_SUB"),
        P("rassign.sub_sub", c5, AB, "a() = b();", OAB, {"a": "5", "b": "5"}, "RASSIGN_SUB_SUB", "a() = b()"),
        P("rassign.named_sub_sub", c5, AB + " auto&& s = a(); auto&& t = b();", "s = t;", OAB, {"a": "5", "b": "5"}, "RASSIGN_NAMED_SUB_SUB"),
        P("rassign.sub_ref", c5, A3 + " E y(5); Ref s(&y, {});", "a() = s;", OA, {"a": "5"}, "RASSIGN_SUB_REF"),
        P("rassign.sub_arr", c5, AB, "a() = b;", OAB, {"a": "5", "b": "5"}, "RASSIGN_SUB_ARR"),
        P("rassign.no_rebind", c5, G + "E y(5); Ref s(&y, {});", "r = s;", 'obs("rbase", r.base() == &g[1]); obs("sbase", s.base() == &y);',
          {"rbase": "1", "sbase": "1"}, "RASSIGN_REF_REF", "assignment never rebinds"),
        # swap of references
        P("rswap.ref_ref", c5, G + "E y(5); Ref s(&y, {});", "swap(std::move(r), std::move(s));", OG + ' obse("y", y);', {"g0": "1", "g1": "5", "g2": "3", "y": "2"},
          "RSWAP_REF_REF", "swap(std::move(ref), std::move(ref)) exchanges the elements (the form the rank >= 1 check uses)"),
        P("rswap.ref_ref_lvalues", [], G + "E y(5); Ref s(&y, {});", "swap(r, s);", OG + ' obse("y", y);', {"g0": "1", "g1": "5", "g2": "3", "y": "2"},
          None, "swap(ref, ref) on named references (not available at any rank)"),
        P("rswap.sub_sub", c5, AB, "swap(a(), b());", OAB, {"a": "5", "b": "3"}, "RSWAP_SUB_SUB"),
        # fill
        P("fill.ref", c5, G, "r.fill(E(5));", OG, {"g0": "1", "g1": "5", "g2": "3"}, "FILL_REF", "fill through a reference"),
        P("fill.arr", c5, A3, "a.fill(E(5));", OA, {"a": "5"}, "FILL_ARR"),
        # elements()
        P("elements.arr", c5, A3, "auto&& el = a.elements();", 'obs("n", long(el.size())); obs("v", val_of(el[0])); obs("same", &el[0] == a.base());',
          {"n": "1", "v": "3", "same": "1"}, "ELEMENTS_ARR", "elements() of an array"),
        P("elements.carr", c5, "Arr const a(E(3));", "auto&& el = a.elements();", 'obs("n", long(el.size())); obs("v", val_of(el[0]));',
          {"n": "1", "v": "3"}, "ELEMENTS_CARR"),
        P("elements.ref", c5, XR, "auto&& el = r.elements();", 'obs("n", long(el.size())); obs("v", val_of(el[0])); obs("same", &el[0] == &x);',
          {"n": "1", "v": "3", "same": "1"}, "ELEMENTS_REF"),
        P("elements.sub", c5, A3, "auto&& el = a().elements();", 'obs("n", long(el.size())); obs("v", val_of(el[0]));',
          {"n": "1", "v": "3"}, "ELEMENTS_SUB"),
        P("elements.assign", c5, G + "E y(5); Ref s(&y, {});", "r.elements() = s.elements();", OG, {"g0": "1", "g1": "5", "g2": "3"},
          "ELEMENTS_ASSIGN", "elements() = elements()"),
        P("elements.write", c5, G, "r.elements()[0] = E(5);", OG, {"g0": "1", "g1": "5", "g2": "3"}, "ELEMENTS_WRITE"),
        # element_moved
        P("moved.arr_ctor", c5, A3, "Arr b(a.element_moved());", 'obsa("b", b); obs("a", val_at(a));', {"b": "3"}, "MOVED_ARR_CTOR",
          "construct from element_moved()"),
        P("moved.ref_assign", c5, G + "E y(5); Ref s(&y, {});", "r = s.element_moved();", OG, {"g0": "1", "g1": "5", "g2": "3"}, "MOVED_REF_ASSIGN",
          "ref = ref.element_moved()"),
        P("moved.arr_assign", c5, AB, "a = b.element_moved();", OA, {"a": "5"}, "MOVED_ARR_ASSIGN"),
        P("moved.sub_assign", c5, AB, "a() = b().element_moved();", OA, {"a": "5"}, "MOVED_SUB_ASSIGN"),
        P("moved.named_sub_assign", c5, AB + " auto&& d = a(); auto&& src = b();", "d = src.element_moved();", OA, {"a": "5"}, "MOVED_SUB_ASSIGN",
          "named subarray = subarray.element_moved() (this form moves at rank >= 1)", counts={"moves": "1", "copies": "0"}),
        P("moved.ref_call_assign", c5, G + "E y(5); Ref s(&y, {});", "r = s().element_moved();", OG, {"g0": "1", "g1": "5", "g2": "3"},
          "MOVED_REF_CALL_ASSIGN", "ref = ref().element_moved() (this form moves at rank >= 1)", counts={"moves": "1", "copies": "0"}),
        P("moved.sub_ctor", c5, A3, "Arr b(a().element_moved());", 'obsa("b", b); obs("a", val_at(a));', {"b": "3"}, "MOVED_ARR_CTOR",
          "array(a().element_moved()) (this form moves at rank >= 1)", counts={"moves": "1", "copies": "0"}),
        P("moved.exists_arr", c5, A3, "auto&& m = a.element_moved();", 'obs("n", long(m.num_elements()));', {"n": "1"}, "MOVED_EXISTS_ARR"),
        P("moved.exists_ref", c5, XR, "auto&& m = r.element_moved();", 'obs("n", long(m.num_elements()));', {"n": "1"}, "MOVED_EXISTS_REF"),
        # address-of (needed by constructing from a reference on the pinned tree)
        P("addr.ref", [], XR, "auto p = &r;", 'obs("ok", (*p).base() == &x);', {"ok": "1"}, None, "&r of a rank-0 reference"),
        P("addr.arr", [], A3, "auto p = &a;", 'obs("ok", p->base() == a.base());', {"ok": "1"}, None),
    ]


# the entry points C10 speaks about (allocator-extended constructors, copy / move construction and assignment, the swaps)
C10_PROBES = {"ctor.alloc", "ctor.exts_alloc", "ctor.elem_alloc", "ctor.exts_elem_alloc", "ctor.copy", "ctor.copy_alloc", "ctor.move",
              "ctor.move_alloc", "ctor.from_ref_alloc", "ctor.from_conv_array_alloc", "assign.copy", "assign.move", "swap.std", "swap.adl",
              "swap.member"}


def all_probes():
    ps = construction() + assignment() + swap_decay_conv() + queries() + comparisons() + through_refs()
    ids = [p["id"] for p in ps]
    assert len(ids) == len(set(ids)), [i for i in ids if ids.count(i) > 1]
    assert C10_PROBES <= set(ids), C10_PROBES - set(ids)
    for p in ps:
        if p["id"] in C10_PROBES:
            p["props"] = list(p["props"]) + ["C10"]
    return ps


def source(p, elem_kind=1):
    return ("// rank-0 probe %s: %s\n// needed by: %s\n#include \"common/rank0_probe_main.hpp\"\n"
            "int main() {\n\tusing namespace r0;  // NOLINT\n\tusing std::swap;\n\ton_terminate(\"%s\");\n\t{\n\t\t%s\n\t\tarm();\n\t\t%s\n\t\tcounts();\n\t\t%s\n\t}\n"
            "\treturn finish(\"%s\");\n}\n") % (p["id"], p["note"] or p["stmt"], ",".join(p["props"]) or "-", p["id"],
                                               p["setup"], p["stmt"], p["obs"], p["id"])


def config_flags(cxx, ndebug, elem_kind=1):
    return [cxx, "-std=c++17", "-I" + core.INCLUDE, "-I" + os.path.join(core.VERIF, "harness"), "-w", "-pedantic-errors", "-DR0_T=%d" % elem_kind] \
        + (["-DNDEBUG"] if ndebug else [])


_pch = {}
_pch_lock = threading.Lock()
_common_hash = None


def common_hash():
    global _common_hash
    if _common_hash is None:
        _common_hash = core.tree_hash([os.path.join(core.VERIF, "harness", "common")])
    return _common_hash


def pch_flags(cxx, ndebug, elem_kind):
    """A precompiled header of common/rank0_probe_main.hpp per configuration (a probe then costs ~0.2 s instead of ~1.2 s).
    Returns the extra flags that make the compiler use it ([] when it could not be built: the probes still work, slower)."""
    key = (cxx, ndebug, elem_kind)
    with _pch_lock:
        if key in _pch:
            return _pch[key]
        hdr = os.path.join(core.VERIF, "harness", "common", "rank0_probe_main.hpp")
        tag = hashlib.sha256((core.include_hash() + core.tree_hash([os.path.join(core.VERIF, "harness", "common")])
                              + repr(key)).encode()).hexdigest()[:14]
        d = os.path.join(PROBE_DIR, "pch-" + tag)
        flags = []
        if cxx.startswith("g++"):
            out = os.path.join(d, "common", "rank0_probe_main.hpp.gch")
            if not os.path.exists(out):
                os.makedirs(os.path.dirname(out), exist_ok=True)
                rc, _o, _e = core.sh(config_flags(cxx, ndebug, elem_kind) + ["-x", "c++-header", hdr, "-o", out + ".tmp"], timeout=300)
                if rc == 0:
                    os.replace(out + ".tmp", out)
            if os.path.exists(out):
                flags = ["-I" + d]
        else:
            out = os.path.join(d, "rank0_probe_main.pch")
            if not os.path.exists(out):
                os.makedirs(d, exist_ok=True)
                rc, _o, _e = core.sh(config_flags(cxx, ndebug, elem_kind) + ["-x", "c++-header", hdr, "-o", out + ".tmp"], timeout=300)
                if rc == 0:
                    os.replace(out + ".tmp", out)
            if os.path.exists(out):
                flags = ["-include-pch", out]
        _pch[key] = flags
        return flags


def compile_probe(p, cxx="g++", ndebug=False, elem_kind=1, run=False, sanitize=False):
    """Returns dict(ok, log, out).  ok: the translation unit compiles (-fsyntax-only, or a full build when run=True)."""
    os.makedirs(PROBE_DIR, exist_ok=True)
    src = source(p, elem_kind)
    tag = hashlib.sha256((src + cxx + str(ndebug) + str(elem_kind) + core.include_hash() + common_hash() + str(sanitize)).encode()).hexdigest()[:14]
    base = os.path.join(PROBE_DIR, "%s-%s" % (p["id"].replace(".", "_"), tag))
    cpp = base + ".cpp"
    cf_ = config_flags(cxx, ndebug, elem_kind)
    flags = [cf_[0]] + pch_flags(cxx, ndebug, elem_kind) + cf_[1:]
    with open(cpp, "w") as f:
        f.write(src)
    if not run:
        memo = base + ".result"
        if os.path.exists(memo):
            try:
                txt = open(memo).read()
                return {"ok": txt.startswith("ok"), "log": txt.split("\n", 1)[1] if "\n" in txt else "", "out": "", "src": src}
            except OSError:
                pass
        rc, out, err = core.sh(flags + ["-fsyntax-only", cpp], timeout=300)
        log = first_error(err) if rc != 0 else ""
        if rc != 124:
            with open(memo + ".tmp", "w") as f:
                f.write(("ok" if rc == 0 else "fail") + "\n" + log)
            os.replace(memo + ".tmp", memo)
        return {"ok": rc == 0, "log": log, "out": "", "src": src}
    exe = base + ".x"
    extra = ["-O0"] + (["-g", "-fsanitize=address,undefined", "-fno-sanitize-recover=all"] if sanitize else [])
    rc, out, err = core.sh((config_flags(cxx, ndebug, elem_kind) if sanitize else flags) + extra + [cpp, "-o", exe], timeout=600)
    if rc != 0:
        return {"ok": False, "log": first_error(err), "out": "", "src": src}
    rc, out, err = core.sh([exe], timeout=60)
    try:
        os.remove(exe)
    except OSError:
        pass
    res = out.strip()
    if rc != 0:
        tail = [l for l in err.strip().splitlines() if l.strip()]
        res = (res + " " if res else "") + "EXIT %s %s" % (rc, (tail[0] if sanitize and tail else (tail[-1] if tail else ""))[:160])
    return {"ok": True, "log": "", "out": res, "src": src}


def first_error(err):
    lines = [l for l in err.splitlines() if "error" in l]
    if not lines:
        return err.strip()[-300:]
    l = lines[0]
    # strip the absolute prefix of the tree under test
    return l.replace(core.INCLUDE + "/", "")[:900]


def run_matrix(probes, configs, run=False, elem_kind=1, sanitize=False, workers=None):
    """configs: list of (cxx, ndebug).  Returns {probe id: {config name: result}}."""
    jobs = [(p, c) for p in probes for c in configs]
    res = {}

    def one(job):
        p, (cxx, nd) = job
        return p["id"], cfg_name(cxx, nd), compile_probe(p, cxx, nd, elem_kind, run, sanitize)
    with cf.ThreadPoolExecutor(max_workers=workers or core.NCPU) as ex:
        for pid, cname, r in ex.map(one, jobs):
            res.setdefault(pid, {})[cname] = r
    return res


def cfg_name(cxx, ndebug):
    return cxx + ("-ndebug" if ndebug else "-assert")


def parse_out(out):
    """'P id a=3 b=5 | allocs=.. | alive=..' -> (values dict, counters dict, tail dict)"""
    vals, cnt, tail = {}, {}, {}
    if not out.startswith("P "):
        return vals, cnt, {"raw": out}
    parts = out.split("|")
    for tok in parts[0].split()[2:]:
        if "=" in tok:
            k, v = tok.split("=", 1)
            vals[k] = v
    if len(parts) > 1:
        for tok in parts[1].split():
            if "=" in tok:
                k, v = tok.split("=", 1)
                cnt[k] = v
    if len(parts) > 2:
        for tok in parts[2].split():
            if "=" in tok:
                k, v = tok.split("=", 1)
                tail[k] = v
        if "EXIT" in parts[2]:
            tail["exit"] = parts[2].split("EXIT", 1)[1].strip()
    if "EXIT" in out and "exit" not in tail:
        tail["exit"] = out.split("EXIT", 1)[1].strip()
    return vals, cnt, tail


def judge(p, out):
    """Does the run do what the properties require?  Returns '' or a description of the deviation."""
    vals, _cnt, tail = parse_out(out)
    if "raw" in tail:
        return "no output: " + tail["raw"][:120]
    bad = []
    for k, v in p["expect"].items():
        got = vals.get(k, "<missing>").split("@")[0]
        if got.rstrip("!") != v:
            bad.append("%s=%s (expected %s)" % (k, got, v))
    for k, v in p.get("counts", {}).items():
        if k in _cnt and _cnt[k] != v:
            bad.append("%s=%s (expected %s)" % (k, _cnt[k], v))
    if tail.get("exit"):
        bad.append("exit " + tail["exit"])
    if tail.get("err", "-") != "-":
        bad.append("lifetime error " + tail["err"])
    if tail.get("alive", "0") != "0" or tail.get("out", "0") != "0":
        bad.append("leak alive=%s out=%s" % (tail.get("alive"), tail.get("out")))
    return "; ".join(bad)

"""C08 -- every element is constructed once and destroyed once; storage is returned.
Proof: coq/Properties/Properties_C08.v (Model/Life.v).  Tie: h_life with the tracked element and the tracked
allocator (registry of object states, ledger of blocks) vs the extracted lifecycle machine, fault-free histories
over every operation, trivial and non-trivial element types, ranks 1..3."""
from . import core, lifecommon as lc

PID = "C08"


def plan(tier):
    q = tier == "quick"
    n = 5000 if q else 50000
    mo = 16 if q else 40
    return [
        {"kind": "c08", "cfg": lc.cfg(d=2, t=1), "count": n, "maxops": mo},
        {"kind": "c08", "cfg": lc.cfg(d=1, t=1), "count": n // 2, "maxops": mo},
        {"kind": "c08", "cfg": lc.cfg(d=3, t=1), "count": n // 2, "maxops": mo},
        {"kind": "c08", "cfg": lc.cfg(d=2, t=0), "count": n // 2, "maxops": mo},
        {"kind": "c08", "cfg": lc.cfg(d=1, t=0), "count": n // 4, "maxops": mo},
        {"kind": "c08", "cfg": lc.cfg(d=2, t=1, pocca=1, pocma=1, pocs=1, socc=1), "count": n // 2, "maxops": mo},
        # 'not written' for every trivially default constructible element type, also one that is not is_trivial (kind 3);
        # 'constructed, never destroyed' for a trivially destructible type with a non-trivial default constructor (kind 2)
        {"kind": "c08", "cfg": lc.cfg(d=2, t=3), "count": n // 3, "maxops": mo},
        {"kind": "c08", "cfg": lc.cfg(d=1, t=3), "count": n // 6, "maxops": mo},
        {"kind": "c08", "cfg": lc.cfg(d=2, t=2), "count": n // 4, "maxops": mo},
    ]


def run(tier, seed, replay=None):
    if replay:
        res = core.Result(PID, tier, seed, level="proof")
        lc.replay(res, PID, replay)
        return res.finish()
    res, _exes = lc.run_family(
        PID, tier, seed, plan(tier),
        rule="random fault-free histories over a pool of 6 arrays: every constructor form, copy, move, assignment to same and "
             "different extents, reextent (three overloads), clear, swap, reshape, element writes, destruction; extents per "
             "dimension 0..5 (12% forced 0/1); two or three allocator instances; after every operation the registry/ledger "
             "summaries (alive elements, outstanding blocks (instance, n), per array block identity, validity) are compared "
             "with the model and the registry/ledger are checked for illegal transitions; trivial element type: storage is "
             "pre-filled with 0xCD so 'not written' is visible, also for a trivially default constructible type that is not "
             "is_trivial (user-provided copy) and, the other way round, 'written' for a trivially destructible type with a "
             "non-trivial default constructor; non-trivial = at least 4 operations; distinct by hash",
        not_exercised=["rank 0 and rank 4 arrays", "serialisation-load (C17 covers it)"],
        assumptions=["histories are in the documented domain (swap of non-propagating unequal allocators excluded)"])
    return res.finish()

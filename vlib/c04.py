"""C04 -- owning arrays have value semantics (copy, move, assign, swap, decay).
Proof: coq/Properties/Properties_C04.v (Model/Life.v: refinement of the lifecycle machine to the reference
interpreter over values, disjoint storage, moves and swap copy nothing).  Tie: h_life vs the extracted machine on
random histories: extensions (with index bases), all elements, block identity classes, allocator ids after every
operation; monitors: pairwise disjoint storage, write-to-one-invisible-to-other probe after every copy, copy counter
of moves and swap."""
from . import core, lifecommon as lc, rank0

PID = "C04"


def plan(tier):
    q = tier == "quick"
    n = 6000 if q else 60000
    mo = 18 if q else 60
    return [
        {"kind": "c04", "cfg": lc.cfg(d=2, t=1), "count": n, "maxops": mo},
        {"kind": "c04", "cfg": lc.cfg(d=1, t=1), "count": n // 2, "maxops": mo},
        {"kind": "c04", "cfg": lc.cfg(d=3, t=1), "count": n // 2, "maxops": mo},
        {"kind": "c04", "cfg": lc.cfg(d=4, t=1), "count": n // 6, "maxops": mo},
        {"kind": "c04", "cfg": lc.cfg(d=2, t=0), "count": n // 2, "maxops": mo},
        {"kind": "c04", "cfg": lc.cfg(d=1, t=0), "count": n // 4, "maxops": mo},
        {"kind": "c04", "cfg": lc.cfg(d=3, t=0), "count": n // 4, "maxops": mo},
        {"kind": "c04", "cfg": lc.cfg(d=2, t=2), "count": n // 4, "maxops": mo},
        {"kind": "c04", "cfg": lc.cfg(d=2, t=3), "count": n // 6, "maxops": mo},
    ]


def run(tier, seed, replay=None):
    if replay:
        res = core.Result(PID, tier, seed, level="proof")
        if rank0.is_rank0_replay(replay):
            rank0.replay(res, PID, replay)
        else:
            lc.replay(res, PID, replay)
        return res.finish()
    res, _exes = lc.run_family(
        PID, tier, seed, plan(tier),
        rule="random fault-free histories over a pool of 6 arrays biased towards construction from arrays, from views "
             "(transposed / rotated / reversed / sliced / strided views of other live arrays), from arrays of a convertible "
             "element type, from nested initializer lists and iterator ranges, unary plus, copy and move assignment over "
             "any prior state (same extensions, same count, different, empty, moved-from, self), swap, element writes, "
             "operator==; 30% of the cases draw index bases in -3..3; trivial (int) and tracked non-trivial elements, "
             "ranks 1..4; non-trivial = at least 4 operations; distinct by hash",
        not_exercised=["execution-policy constructors",
                       "sources of convertible element type with non-zero index bases"],
        assumptions=["histories are in the documented domain (no self view-assignment, swap of non-propagating unequal "
                     "allocators excluded)"])
    rank0.run_family(res, tier, seed, PID)     # dimensionality 0: compile probes + h_rank0 (coverage under "rank0")
    return res.finish()

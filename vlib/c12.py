"""C12 -- projection views (element_transformed, static/const_array_cast, as_const, member_cast,
reinterpret_array_cast<U>() and <U>(n), arrays constructed from them), on views with any index bases.
Proof: coq/Properties/Properties_C12.v (model coq/Model/ProjectC12{Based,,Walk}.v on Layout.v/View.v).
Tie: harness/h_project.cpp vs the extracted model (ocaml/c12_driver.ml): per program step the shape of the
view, per index the value and the byte offset of &proj[idx] from the root's data, words of the root
modified by writes through the projection, and the array constructed from the projection."""
import concurrent.futures as cf
import glob
import hashlib
import json
import os
import re
import struct
import tempfile

from . import core

PID = "C12"
DRIVER = "driver_c12"
HARNESS = "h_project"
PROBE_SRC = os.path.join("harness", "c12_probe_tptr_sliced.cpp")
# compile-time probes: name -> (source, harness macro, driver flag)
PROBES = {
    "tptr_sliced": (os.path.join("harness", "c12_probe_tptr_sliced.cpp"), "C12_TPTR_SLICED", "--tptr-sliced"),
    "tptr_const_iter": (os.path.join("harness", "c12_probe_tptr_const_iter.cpp"), "C12_TPTR_CONST_ITER", "--tptr-citer"),
    "expl_from_view": (os.path.join("harness", "c12_probe_explicit_from_view.cpp"), "C12_EXPL_FROM_VIEW", "--expl-view"),
}
N_HEAVY_TYPES = 11      # C12_HEAVY_TYPES of harness/common/c12_projview.hpp


# --------------------------------------------------------------------------------------------
# model side
# --------------------------------------------------------------------------------------------
def workdir():
    d = os.path.join(core.BUILD, "work", PID)
    os.makedirs(d, exist_ok=True)
    return d


def ensure_driver():
    return core.ensure_driver_for("c12", "ExtractC12.v", ["c12_zu.ml", "c12_driver.ml"], DRIVER, model_base="modelc12")


def flag_args(flags):
    out = []
    for name, (_src, _macro, opt) in PROBES.items():
        out += [opt, "1" if flags.get(name) else "0"]
    return out


def generate(seed, count, flags, prefix="p", extra=()):
    d = workdir()
    prog, obs = os.path.join(d, "prog_%s.txt" % prefix), os.path.join(d, "obs_%s.txt" % prefix)
    rc, out, err = core.sh([os.path.join(core.BIN, DRIVER), "gen", "--seed", str(seed), "--count", str(count),
                            "--prog", prog, "--obs", obs, "--prefix", prefix] + flag_args(flags) + list(extra), timeout=900)
    if rc != 0:
        raise RuntimeError("driver_c12 gen failed: " + err[-2000:])
    try:
        dist = json.loads(out.strip().splitlines()[-1])
    except Exception:
        dist = {}
    return open(prog).read(), open(obs).read(), dist


def model_run(prog_text, flags):
    d = workdir()
    fd, p = tempfile.mkstemp(dir=d, suffix=".prog")
    os.write(fd, prog_text.encode())
    os.close(fd)
    o = p + ".obs"
    rc, out, err = core.sh([os.path.join(core.BIN, DRIVER), "run", "--prog", p, "--obs", o] + flag_args(flags), timeout=300)
    txt = open(o).read() if os.path.exists(o) else ""
    for f in (p, o):
        try:
            os.remove(f)
        except OSError:
            pass
    if rc != 0:
        raise RuntimeError("driver_c12 run failed: " + err[-2000:])
    return txt


# --------------------------------------------------------------------------------------------
# direct monitors on the implementation's own output (independent of the Coq model): the value read
# through a projection is the object stored at the byte offset of &proj[idx]; that object lies inside
# the root array; words modified by a write through a projection lie inside the root.
# --------------------------------------------------------------------------------------------
def _lo_hi(f):
    b = struct.unpack("<ii", struct.pack("<d", float(f)))
    return b[0], b[1]


def pristine_word(elem, kw, epoch):
    k, j = divmod(kw, 4)
    if elem == "S":
        if j == 0:
            return k + 1000000 * epoch
        if j == 1:
            return 100000 + k
        return _lo_hi(200000 + k)[j - 2]
    re_, im = k + 1000000 * epoch, 300000 + k
    return _lo_hi(re_)[j] if j < 2 else _lo_hi(im)[j - 2]


P_RE = re.compile(r"^P (\S+) (\d+) idx=(\S*) O=(-?\d+|-) V=(\S+)$")
I_MOVE_RE = re.compile(r"^I (\S+) (\d+) (\S+) (\S+) pos=(-?\d+) end=(-?\d+) p=(-?\d+)(?: d=(\S+) m=(\S+))?$")
I_OBS_RE = re.compile(r"^I (\S+) (\d+) (\S+) (\S+) at=(-?\d+) d=(\S+) m=(\S+)$")
S_RE = re.compile(r"^S (\S+) (\d+) elem=(\S) esz=(\d+) rank=(\d+) sizes=(\S*) ")


def monitors(prog_text, impl_text):
    """Returns [(case id, what, line)]."""
    # per case: root element kind, number of root elements, the step after which `mutate` happened, the
    # step of a `write` (P lines are only checked before any write)
    info = {}
    for cid, block in core.split_cases(prog_text):
        elem, nel, step, mut_step, write_step = "S", 0, 0, None, None
        for ln in block.splitlines():
            t = ln.split()
            if not t:
                continue
            if t[0] == "root":
                elem = t[1]
                dims = [int(x) for x in t[3:]]
                nel = 1
                for a, b in zip(dims[0::2], dims[1::2]):
                    nel *= max(b - a, 0)
            elif t[0] in ("op", "proj"):
                step += 1
            elif t[0] == "mutate" and mut_step is None:
                mut_step = step          # probes of later steps see epoch 1
            elif t[0] == "write" and write_step is None:
                write_step = step
        info[cid] = (elem, nel, mut_step, write_step)
    bad = []
    esz = {}
    for line in impl_text.splitlines():
        m = S_RE.match(line)
        if m:
            esz[(m.group(1), int(m.group(2)))] = (m.group(3), int(m.group(4)))
            continue
        if line.startswith("M "):
            t = line.split()
            cid, kw = t[1], int(t[3])
            if cid in info and not (0 <= kw < 4 * info[cid][1]):
                bad.append((cid, "write-outside-root", line))
            continue
        if line.startswith("I "):
            # iterator walks: the position the library reports (it - begin) is the one plain arithmetic on the
            # tokens gives, and what the iterator designates (d) is what indexing designates (m)
            m = I_MOVE_RE.match(line)
            if m:
                if m.group(5) != m.group(7):
                    bad.append((m.group(1), "iterator-position-is-not-the-arithmetic-position", line))
                elif m.group(8) is not None and m.group(8) != m.group(9):
                    bad.append((m.group(1), "iterator-designates-another-element-than-indexing", line))
                continue
            m = I_OBS_RE.match(line)
            if m and m.group(6) != m.group(7):
                bad.append((m.group(1), "iterator-designates-another-element-than-indexing", line))
            continue
        m = P_RE.match(line)
        if not m:
            continue
        cid, step, _idx, off, val = m.group(1), int(m.group(2)), m.group(3), m.group(4), m.group(5)
        if cid not in info or off == "-":
            continue
        elem, nel, mut_step, write_step = info[cid]
        code, size = esz.get((cid, step), ("?", 0))
        off = int(off)
        if not (0 <= off and off + size <= 16 * nel) or val == "oob":
            bad.append((cid, "address-outside-root", line))
            continue
        if off % 4 != 0 or size % 4 != 0 or code == "L":
            continue
        epoch = 1 if (mut_step is not None and step > mut_step) else 0
        want = ".".join(str(pristine_word(elem, off // 4 + t, epoch)) for t in range(size // 4))
        if val != want:
            bad.append((cid, "value-is-not-the-object-at-that-address", line + "   (stored there: %s)" % want))
    return bad


# --------------------------------------------------------------------------------------------
# one case: does it (still) fail?   shrinking
# --------------------------------------------------------------------------------------------
def impl_run(exe, prog_text):
    return core.run_harness(exe, prog_text, shards=1, timeout=120)


def case_fails(exe, block, flags):
    mtxt = model_run(block, flags)
    if re.search(r"^X ", mtxt, re.M):
        return None  # the shrunk program left the documented domain: not a candidate
    itxt, crashes = impl_run(exe, block)
    if crashes:
        tail = (crashes[0][2].strip().splitlines() or [""])[-1]
        return ("crash", "", "signal/exit %s: %s" % (crashes[0][1], tail))
    d = core.diff_cases(mtxt, itxt)
    if d:
        return ("diff", d[0][1], d[0][2])
    mon = monitors(block, itxt)
    if mon:
        return ("monitor:" + mon[0][1], "", mon[0][2])
    return False


def shrink(exe, block, flags, budget=50):
    """Greedy delta debugging: drop step groups (an op/proj/mutate/write/convert line with the probes that
    follow it), then the probes of the remaining groups."""
    lines = block.strip().splitlines()
    head, body = lines[:2], lines[2:-1]
    groups, cur = [], []
    for ln in body:
        if not ln.startswith("probe"):
            groups.append(cur)
            cur = [ln]
        else:
            cur.append(ln)
    groups.append(cur)

    def assemble(gs):
        return "\n".join(head + [ln for g in gs for ln in g] + ["end"]) + "\n"

    best, tries, changed = groups, 0, True
    while changed and tries < budget:
        changed = False
        for k in range(len(best) - 1, 0, -1):
            cand = best[:k] + best[k + 1:]
            tries += 1
            if case_fails(exe, assemble(cand), flags):
                best, changed = cand, True
                break
            if tries >= budget:
                break
    for k in range(len(best)):
        if tries >= budget + 25:
            break
        g = best[k]
        keep = [ln for ln in g if not ln.startswith("probe")]
        probes = [ln for ln in g if ln.startswith("probe")]
        if not probes:
            continue
        tries += 1
        cand = best[:k] + [keep] + best[k + 1:]
        if case_fails(exe, assemble(cand), flags):
            best = cand
            continue
        # keep a single probe if one suffices
        for pl in probes:
            tries += 1
            cand = best[:k] + [keep + [pl]] + best[k + 1:]
            if case_fails(exe, assemble(cand), flags):
                best = cand
                break
            if tries >= budget + 25:
                break
    return assemble(best)


def value_category_table(prog_text, obs_text):
    """(projection kind x value category of the source view x rank class of the source) -> number of applications
    in this run, counted from the programs that were actually run (corpus + generated).  Categories:
    lvalue = named view (& overloads), const = const& overloads, xvalue = std::move(view) and prvalue = view()
    (both select the && overloads)."""
    names = {"l": "lvalue(&)", "c": "const(const&)", "r": "xvalue(&&,std::move)", "t": "prvalue(&&,temporary)"}
    ranks = {}
    for line in obs_text.splitlines():
        m = S_RE.match(line)
        if m:
            ranks[(m.group(1), int(m.group(2)))] = int(m.group(5))
    table = {}
    for cid, block in core.split_cases(prog_text):
        step = 0
        for ln in block.splitlines():
            t = ln.split()
            if not t or t[0] not in ("op", "proj"):
                continue
            step += 1
            if t[0] != "proj" or (cid, step) not in ranks or (cid, step - 1) not in ranks:
                continue
            k = t[1]
            cat, kind = (k[0], k[2:]) if k[:2] in ("c_", "r_", "t_") else ("l", k)
            cls = "D=1" if ranks[(cid, step - 1)] == 1 else "D>=2"
            row = table.setdefault(kind, {})
            key = "%s %s" % (names[cat], cls)
            row[key] = row.get(key, 0) + 1
    return {k: dict(sorted(v.items())) for k, v in sorted(table.items())}


EXT_RE = re.compile(r" ext=(\S*) ")


def receiver_base_table(prog_text, obs_text):
    """(projection kind) -> (receiver kind + rank class of the source) -> how many applications in this run had a source
    whose non-empty dimensions have some NEGATIVE first index / only positive ones / all zero, and how many had a non-zero
    first index in the LEADING dimension.  Counted from the programs actually run (corpus + generated) and the
    extensions the library itself reported for the source view (S line of the preceding step)."""
    names = {"l": "lvalue(&)", "c": "const(const&)", "r": "xvalue(&&,std::move)", "t": "prvalue(&&,temporary)"}
    shape = {}
    for line in obs_text.splitlines():
        m = S_RE.match(line)
        if m:
            x = EXT_RE.search(line)
            exts = []
            if x and x.group(1):
                for e in x.group(1).split(","):
                    a, b = e.rsplit(":", 1)
                    exts.append((int(a), int(b)))
            shape[(m.group(1), int(m.group(2)))] = (int(m.group(5)), exts)
    table = {}
    for cid, block in core.split_cases(prog_text):
        step = 0
        for ln in block.splitlines():
            t = ln.split()
            if not t or t[0] not in ("op", "proj"):
                continue
            step += 1
            if t[0] != "proj" or (cid, step) not in shape or (cid, step - 1) not in shape:
                continue
            k = t[1]
            cat, kind = (k[0], k[2:]) if k[:2] in ("c_", "r_", "t_") else ("l", k)
            rank, exts = shape[(cid, step - 1)]
            firsts = [f for f, l in exts if l > f]
            cls = "negative" if any(f < 0 for f in firsts) else ("positive" if any(f > 0 for f in firsts) else "zero")
            lead = bool(exts) and exts[0][1] > exts[0][0] and exts[0][0] != 0
            cell = table.setdefault(kind, {}).setdefault("%s %s" % (names[cat], "D=1" if rank == 1 else "D>=2"),
                                                         {"negative": 0, "positive": 0, "zero": 0, "leading_nonzero": 0})
            cell[cls] += 1
            cell["leading_nonzero"] += 1 if lead else 0
    return {k: dict(sorted(v.items())) for k, v in sorted(table.items())}


# Which overload of array_ref.hpp each receiver kind of a projection reaches (line numbers of /repo at 9e89822).
# D>=2 = const_subarray<T,D> / subarray<T,D> (:1020, :1914); D=1 = the specialisation const_subarray<T,1> (:2711) for the
# const members, the generic subarray<T,D> for the & / && ones.  named = the view is an lvalue; c_ = through const&;
# r_ = std::move(view); t_ = the temporary returned by view().
PROJECTION_OVERLOADS = {
    "static_array_cast<T const>() [static]": {
        "D>=2": {"named": "& :1711", "c_": "const& :1693 (constrained on a const target)", "r_ t_": "&& :1706",
                 "not called": "const& to a non-const target :1701 (deprecated: casts constness away)"},
        "D=1": {"named c_ r_ t_": "static_array_cast() const :3228 (one overload)"}},
    "element_transformed(f) [tval tmem tref]": {
        "D>=2": {"named": "& :1735", "c_ (tval)": "const& :1723", "r_ t_": "&& :1745 -> & :1735", "all": "static_array_cast_ :1717"},
        "D=1": {"named": "& :3249", "c_ (tval)": "const& :3237", "r_ t_": "&& :3259 -> & :3249", "all": "static_array_cast(args...) const :3232"},
        "not reachable": "c_tmem (a further transform_ptr type, not instantiated in the harness), c_tref (f takes S&)"},
    "member_cast [member_a/b/c member_re/im, inside blas::real/imag]": {
        "D>=2": {"named": "& :1766", "c_": "const& :1752", "r_ t_": "&& :1780 -> & :1766"},
        "D=1": {"named c_ r_ t_": "member_cast(PM) const :3266 (one overload)"}},
    "const_array_cast() / as_const() [constcast asconst]": {
        "D>=2": {"named c_ r_ t_": "const_array_cast() const :1802, as_const() const :1810 (one overload each)"},
        "D=1": {"-": "the members do not exist in const_subarray<T,1>"}},
    "reinterpret_array_cast<U>() [reint_R/Q/I/C/D up_Q, inside blas::real/imag]": {
        "D>=2": {"named": "subarray & :2278", "c_": "const_subarray const& :1828 (aux :1816, then as_const())", "r_ t_": "subarray && :2289"},
        "D=1": {"named": "subarray & :2278 (generic, through scale)", "c_": "const_subarray<T,1> const& :3287 (layout written out by hand)",
                "r_ t_": "subarray && :2289 (generic, through scale)"},
        "D=0": {"-": "const_subarray<T,0>::reinterpret_array_cast() const& :2683: not exercised"}},
    "reinterpret_array_cast<U>(n) [reintn_I/D/R, inside blas::real_doubled]": {
        "D>=2": {"named": "subarray & :2311", "c_": "const_subarray const& :1839 (both if-constexpr branches build the same layout; raw pointers take the first)",
                 "r_ t_": "subarray && :2324"},
        "D=1": {"named": "subarray & :2311 (layout_t<2>(..).rotate())", "c_": "const_subarray<T,1> const& :3297 (subarray{layout_t<2>{..}}.rotated())",
                "r_ t_": "subarray && :2324"}},
    "blas::real / imag / real_doubled [zreal zimag zdoubled] (adaptors/blas/numeric.hpp :48 :56 :63)": {
        "any rank": {"named r_ t_": "std::forward<A>(array).reinterpret_array_cast<complex_dummy>().member_cast(..) / reinterpret_array_cast<double>(2)...",
                     "c_": "does not compile for a const source (member_cast of the const view returned by the first cast): not called"}},
}


# Which constructor / assignment of array.hpp a conversion kind reaches (source form + value category, how,
# convertibility class of the target).  Line numbers of /repo/include/boost/multi/array.hpp at the pinned commit; the
# map was verified with an instrumented copy of array.hpp (notes/c12_overload_coverage.py prints, per kind, the
# sequence of instrumented functions entered).  cls: "same" (same element type), "impl", "expl".
def overload_of(kind, cls):
    src, cat, how, tgt = kind[0], kind[1], kind.split(".")[1], kind.split(".")[2]
    impl = cls != "expl"
    view_ctor = ("explicit static_array(const_subarray<TT> const&) :407 -> (.., alloc) :374" if not impl else
                 ("static_array(subarray<T,D,element_ptr>&&) :434 -> (.., alloc) :393" if (cls == "same" and src == "v") else
                  "implicit static_array(subarray<TT>&&) :425 -> (.., alloc) :393") if cat in "rt" and src == "v" else
                 ("static_array(subarray<T,D,element_ptr> const&&) :428 -> (.., alloc) :374" if (cls == "same" and src == "v" and cat == "k") else
                  ("static_array(const_subarray<T,D,element_ptr> const&&) :431 -> (.., alloc) :374" if (cls == "same" and src == "q" and cat in "rtk") else
                   "implicit static_array(const_subarray<TT> const&) :416 -> (.., alloc) :374")))
    if src == "e":
        return ["static_array(Range const&) :279 -> (It, It) :271 -> (It, It, alloc) :251"]
    if src == "x":
        return {"carr": ["explicit static_array(TT (&)[N]) :527 -> (It, It) :271"],
                "ilist": ["array(std::initializer_list<value_type>) :1216"],
                "zctor": ["rank 0: explicit static_array(static_array<TT,0> const&) :864 -> (.., alloc) :851"],
                "zalloc": ["rank 0: explicit static_array(static_array<TT,0> const&, alloc) :851"],
                "zasg": ["rank 0: array::operator=(array<TT,0> const&) & :1112 -> static_array::operator=(static_array<TT,0> const&) :1085"],
                "zelem": ["rank 0: static_array::operator=(Singleton const&) :764"]}[how]
    if src == "i":
        return {"ctor": ["static_array(It, It) :271 -> (It, It, alloc) :251"], "alloc": ["static_array(It, It, alloc) :251"],
                "asit": ["array::assign(It, It) :1442 [same extensions: ref::assign]"],
                "adiff": ["array::assign(It, It) :1442 [else: = array(first, last)]", "static_array(It, It) :271 -> (It, It, alloc) :251"]}[how]
    if how == "ssame":
        return ["static_array::operator=(const_subarray<TT> const&) :670" if src in "vqr" else "static_array::operator=(static_array<TT> const&) :703"]
    if how in ("asame", "aresh", "adiff"):
        if src == "a":
            return ["array::operator=(array<TT> const&) :1370 [same extensions, or same num_elements + reshape: static_array::operator= :703; "
                    "else static_cast<array>(other): static_array(array_ref<TT> const&) :473 / explicit :481]"]
        if src == "r":
            return ["array::operator=(const_subarray<OtherT> const&) :1360 [same extensions: static_array::operator= :670; else array{other}: "
                    "(const_subarray<TT> const&) :416 / explicit :407]"]
        return ["array::operator=(Range&&) :1391 [same extensions / same num_elements + reshape: subarray assignment; else "
                "static_cast<array>(other): the view constructors :407/:416/:425/:434]"]
    if how == "from":
        return ["array::from(Range&&) :1411"]
    if how == "asrg":
        return ["array::assign(Range&&) :1464 -> assign(It, It) :1442"]
    if how == "alloc":
        if src in "ar":
            return ["static_array(array_ref<TT> const&, alloc) :288"]
        return ["static_array(subarray<OtherT>&&, alloc) :393" if (cat in "rt" and src == "v") else "static_array(const_subarray<OtherT> const&, alloc) :374"]
    if src in "ar":
        form = {"l": "&", "c": " const&", "r": "&&", "t": "&&"}[cat]
        line = {("l", True): 440, ("l", False): 447, ("r", True): 456, ("r", False): 464, ("t", True): 456, ("t", False): 464,
                ("c", True): 473, ("c", False): 481}[(cat, impl)]
        return ["%s static_array(array_ref<TT>%s) :%d" % ("implicit" if impl else "explicit", form, line)]
    return [view_ctor]


def conversion_tables(dist):
    """From the generator's tags conv:<kind>:<source element code>:<b|z> (b = the source view has a non-zero index
    base): conversion kind -> count, and overload of array.hpp -> {total, on sources with a non-zero base, kinds}."""
    kinds, overloads = {}, {}
    for key in [k for k in dist if k.startswith("conv:")]:
        n = dist.pop(key)
        _c, kind, code, nzb = key.split(":")
        kinds[kind] = kinds.get(kind, 0) + n
        tgt = kind.split(".")[2]
        cls = "same" if (tgt == "same" or (tgt == "nat" and code in "SCRQ")) else \
              ("impl" if (tgt == "wi" or (tgt == "nat" and code != "Z")) else "expl")
        for name in overload_of(kind, cls):
            o = overloads.setdefault(name, {"cases": 0, "with_nonzero_index_base": 0, "kinds": set()})
            o["cases"] += n
            o["with_nonzero_index_base"] += n if nzb == "b" else 0
            o["kinds"].add(kind)
    for o in overloads.values():
        o["kinds"] = " ".join(sorted(o["kinds"]))
    return dict(sorted(kinds.items())), dict(sorted(overloads.items()))


def distinct_nontrivial(prog_text):
    """distinct cases (hash of the text without probes) with a projection and >= 2 further view operations."""
    seen = set()
    for _cid, block in core.split_cases(prog_text):
        steps = [ln for ln in block.splitlines() if ln.split()[0] in ("root", "op", "proj", "mutate", "write", "convert")]
        nops = sum(1 for ln in steps if ln.startswith("op "))
        nproj = sum(1 for ln in steps if ln.startswith("proj "))
        if nproj >= 1 and nops >= 2:
            seen.add(hashlib.sha256("\n".join(steps).encode()).hexdigest())
    return len(seen)


# --------------------------------------------------------------------------------------------
# thorough tier: a sub-sample of the extracted model's answers re-computed by vm_compute inside coqc
# (bounds the trust in extraction and in the driver's number conversion)
# --------------------------------------------------------------------------------------------
PROJ_COQ = {   # program kind -> (model steps, byte offset added by the harness observation)
    "member_a": (["inr (PMember 4 0)"], 0), "member_b": (["inr (PMember 4 4)"], 0), "member_c": (["inr (PMember 8 8)"], 0),
    "reint_R": (["inr (PReinterpret 16)"], 0), "reint_Q": (["inr (PReinterpret 8)"], 0), "reint_I": (["inr (PReinterpret 4)"], 0),
    "reintn_I": (["inr (PReinterpretN 4 %d)"], 0), "reintn_D": (["inr (PReinterpretN 8 %d)"], 0),
    "reintn_R": (["inr (PReinterpretN 16 %d)"], 0),
    "static": (["inr PIdentity"], 0), "asconst": (["inr PIdentity"], 0), "constcast": (["inr PIdentity"], 0),
    "tmem": (["inr PIdentity"], 4), "tref": (["inr PIdentity"], 8),
    "zreal": (["inr (PReinterpret 16)", "inr (PMember 8 0)"], 0), "zimag": (["inr (PReinterpret 16)", "inr (PMember 8 8)"], 0),
    "zdoubled": (["inr (PReinterpretN 8 2)", "inl ORotated", "inl OFlatted", "inl OUnrotated"], 0),
    "reint_C": (["inr (PReinterpret 16)"], 0), "reint_D": (["inr (PReinterpret 8)"], 0),
    "member_re": (["inr (PMember 8 0)"], 0), "member_im": (["inr (PMember 8 8)"], 0), "up_Q": (["inr (PReinterpret 8)"], 0),
}


def _z(n):
    n = int(n)
    return str(n) if n >= 0 else "(%d)" % n


def _coq_op(toks):
    k, a = toks[0], toks[1:]
    simple = {"rotated": "ORotated", "unrotated": "OUnrotated", "transposed": "OTransposed", "reversed": "OReversed",
              "diagonal": "ODiagonal", "halved": "OHalved", "flatted": "OFlatted"}
    if k in simple:
        return simple[k]
    unary = {"index": "OIndex", "strided": "OStrided", "dropped": "ODropped", "taked": "OTaked",
             "partitioned": "OPartitioned", "chunked": "OChunked"}
    if k in unary:
        return "(%s %s)" % (unary[k], _z(a[0]))
    if k == "sliced":
        return "(OSliced %s %s)" % (_z(a[0]), _z(a[1]))
    if k == "reindexed":
        return "(OReindexed %s)" % _z(a[0])
    if k == "blocked":
        return "(OBlocked %s %s)" % (_z(a[0]), _z(a[1]))
    if k == "reindexedl":
        return "(OReindexedL [%s])" % "; ".join(_z(x) for x in a)
    if k == "sliceds":
        return "(OSlicedS %s %s %s)" % (_z(a[0]), _z(a[1]), _z(a[2]))
    if k == "paren":
        out, j, rest = [], 0, a[1:]
        while j < len(rest):
            if rest[j] == "i":
                out.append("PIdx %s" % _z(rest[j + 1]))
                j += 2
            elif rest[j] == "r":
                out.append("PRange %s %s" % (_z(rest[j + 1]), _z(rest[j + 2])))
                j += 3
            else:
                out.append("PAll")
                j += 1
        return "(OParen [%s])" % "; ".join(out)
    raise ValueError("op " + k)


def vm_crosscheck(prog_text, obs_text, limit=200):
    """Returns (number of cases checked, list of disagreeing case ids, log)."""
    obs = core.by_case(obs_text)
    defs, ids = [], []
    # evenly spaced over the first 40 000 cases (corpus files + generated cases), so that every corpus and the
    # generated programs contribute -- in particular projections of re-based sources
    pool = [(c, b) for c, b in core.split_cases(prog_text)[:40000] if "\nmutate" not in b and "tval" not in b and "\nproj " in b]
    stride = max(1, len(pool) // (4 * limit))
    for cid, block in pool[::stride]:
        if len(ids) >= limit:
            break
        steps, root, off, nstep = [], None, 0, 0
        try:
            for ln in block.splitlines():
                t = ln.split()
                if t[0] == "root":
                    d = [int(x) for x in t[3:]]
                    root = "[%s]" % "; ".join("(%s, %s)" % (_z(a), _z(b)) for a, b in zip(d[0::2], d[1::2]))
                elif t[0] == "op":
                    steps.append("inl " + _coq_op(t[1:]))
                    nstep += 1
                elif t[0] == "proj":
                    kind = t[1][2:] if t[1][:2] in ("c_", "r_", "t_") else t[1]
                    ss, o = PROJ_COQ[kind]
                    steps += [x % int(t[2]) if "%d" in x else x for x in ss]
                    off = o
                    nstep += 1
        except (KeyError, ValueError):
            continue
        probes, expect, sizes = [], [], None
        for line in obs.get(cid, []):
            t = line.split()
            if t[0] == "S" and int(t[2]) == nstep:
                sizes = [x for x in t if x.startswith("sizes=")][0][6:]
            m = P_RE.match(line)
            if m and int(m.group(2)) == nstep and m.group(4) != "-":
                probes.append("[%s]" % "; ".join(_z(x) for x in m.group(3).split(",") if x != ""))
                expect.append(_z(int(m.group(4)) - off))
        if root is None or sizes is None or not probes:
            continue
        ids.append(cid)
        defs.append("Definition c%d : bool := chk [%s] %s [%s] [%s] [%s]." % (
            len(ids), "; ".join(steps), root, "; ".join(probes), "; ".join(expect),
            "; ".join(_z(x) for x in sizes.split(",") if x != "")))
    if not ids:
        return 0, [], "no eligible case"
    d = os.path.join(core.BUILD, "work", PID, "vm")
    os.makedirs(d, exist_ok=True)
    src = os.path.join(d, "cases_C12.v")
    with open(src, "w") as f:
        f.write("From Coq Require Import ZArith List Bool.\nImport ListNotations.\nLocal Open Scope Z_scope.\n"
                "From BM Require Import Model.Layout Model.View Model.ProjectC12Based Model.ProjectC12.\n"
                "Definition st (s : op + proj) (x : pview) : pview := match s with inl o => p_exec_op o x | inr p => p_exec_proj p x end.\n"
                "Definition zl_eqb (a b : list Z) : bool := if list_eq_dec Z.eq_dec a b then true else false.\n"
                "Definition chk (steps : list (op + proj)) (root : list range) (probes : list (list Z)) (expect sizes : list Z) : bool :=\n"
                "  let y := fold_left (fun x s => st s x) steps (p_embed 16 (root_view root)) in\n"
                "  zl_eqb (map (p_addr_brackets y) probes) expect && zl_eqb (l_sizes (lay (p_view y))) sizes.\n")
        f.write("\n".join(defs) + "\n")
        f.write("Eval vm_compute in [%s].\n" % "; ".join("c%d" % (k + 1) for k in range(len(ids))))
    rc, out, err = core.sh(["coqc", "-Q", core.COQ, "BM", src], cwd=d, timeout=900)
    if rc != 0:
        return len(ids), ["<coqc failed>"], (out + err)[-2000:]
    answers = re.findall(r"\b(true|false)\b", out.split("= [", 1)[1] if "= [" in out else "")
    bad = [ids[k] for k, fl in enumerate(answers) if fl == "false"]
    if len(answers) != len(ids):
        bad.append("<%d answers for %d cases>" % (len(answers), len(ids)))
    return len(ids), bad, out[-500:]


# --------------------------------------------------------------------------------------------
# build: compile-time probe + harness
# --------------------------------------------------------------------------------------------
def run_probe(name):
    """Does harness/c12_probe_<...>.cpp compile (syntax only, assertions enabled)?  Returns (ok, compiler log)."""
    src = os.path.join(core.VERIF, PROBES[name][0])
    rc, out, err = core.sh(["g++", "-std=c++17", "-fsyntax-only", "-I" + core.INCLUDE, src], timeout=300)
    return rc == 0, (out + err)[-3000:]


# structured records of what a failing probe means (matched against known_findings.json)
PROBE_RECORDS = {
    "tptr_sliced": ({"found_by": "compile-probe", "operation": "sliced", "view": "element_transformed", "rank": ">=2",
                     "site": "array_ref.hpp:sliced_aux_:null-base-assertion", "build": "assertions-enabled"},
                    "element_transformed(f).sliced(a,b) of a rank-2 view does not compile with assertions enabled"),
    "tptr_const_iter": ({"found_by": "compile-probe", "operation": "begin", "view": "element_transformed", "rank": "1",
                         "constness": "const", "site": "array_ref.hpp:const_subarray<T,1>::begin()const&:iterator-to-const_iterator"},
                        "begin()/end() of a const rank-1 element_transformed view (and of the rows of a const rank-2 one) do not compile"),
    "expl_from_view": ({"found_by": "compile-probe", "operation": "converting-constructor", "source": "view",
                        "element": "explicit-only", "site": "array.hpp:static_array(const_subarray const&,alloc):is_assignable-constraint"},
                       "array<T2,D>(view) does not compile when T2 is only explicitly constructible from the view's element type"),
}


def build_c12_harness(flags, extra=(), tag="", timeout=1500):
    """h_project = h_project.cpp + 2 x N_HEAVY_TYPES explicit-instantiation parts (c12_heavy_part.cpp), compiled in
    parallel and linked; cached by the hash of the include tree, the harness sources and the flags."""
    macros = ["-D%s=%d" % (PROBES[n][1], 1 if flags.get(n) else 0) for n in sorted(PROBES)]
    srcs = [os.path.join(core.VERIF, "harness", f) for f in ("h_project.cpp", "c12_heavy_part.cpp")]
    common = [os.path.join(core.VERIF, "harness", "common", f) for f in ("c12_projview.hpp", "c12_heavy.hpp", "dynview.hpp")]
    key = hashlib.sha256((core.include_hash() + core.tree_hash(srcs + common) + " ".join(macros) + " ".join(extra)).encode()).hexdigest()[:16]
    exe = os.path.join(core.BIN, "%s%s-%s" % (HARNESS, tag, key))
    if os.path.exists(exe):
        os.utime(exe, None)
        return True, exe, "cached"
    os.makedirs(core.BIN, exist_ok=True)
    # keep the three most recently used binaries of other library trees (a seed / mutation run alternates between the
    # tree under test and /repo for the replays); older ones are removed
    old = sorted((f for f in os.listdir(core.BIN) if f.startswith(HARNESS + tag + "-")),
                 key=lambda f: os.path.getmtime(os.path.join(core.BIN, f)), reverse=True)
    for f in old[3:]:
        try:
            os.remove(os.path.join(core.BIN, f))
        except OSError:
            pass
    objdir = os.path.join(core.BUILD, "work", PID, "obj" + tag)
    os.makedirs(objdir, exist_ok=True)
    base = ["g++", "-std=c++17", "-O1", "-g0", "-I" + core.INCLUDE, "-I" + os.path.join(core.VERIF, "harness")] + macros + list(extra)
    jobs = [(base + ["-c", srcs[0], "-o", os.path.join(objdir, "main.o")], os.path.join(objdir, "main.o"))]
    for t in range(N_HEAVY_TYPES):
        for fn in (0, 1):
            o = os.path.join(objdir, "part_%d_%d.o" % (t, fn))
            jobs.append((base + ["-DC12_PART_TYPE=%d" % t, "-DC12_PART_FN=%d" % fn, "-c", srcs[1], "-o", o], o))
    logs = []
    with cf.ThreadPoolExecutor(max_workers=core.NCPU) as ex:
        for (cmd, _o), (rc, out, err) in zip(jobs, ex.map(lambda j: core.sh(j[0], timeout=timeout), jobs)):
            if rc != 0:
                logs.append(" ".join(cmd[-6:]) + "\n" + (out + err)[-3000:])
    if logs:
        return False, exe, "\n".join(logs)[-6000:]
    rc, out, err = core.sh(["g++"] + list(extra) + [o for _c, o in jobs] + ["-o", exe], timeout=timeout)
    if rc != 0:
        return False, exe, (out + err)[-6000:]
    return True, exe, "built"


def prepare(res, tier="quick"):
    coq = core.coq_check_property(PID)
    core.proof_coverage(res, coq)
    problems = []
    with cf.ThreadPoolExecutor(max_workers=6) as ex:
        f_drv = ex.submit(ensure_driver)
        f_probes = {n: ex.submit(run_probe, n) for n in PROBES}
        probes = {n: f.result() for n, f in f_probes.items()}
        flags = {n: ok for n, (ok, _log) in probes.items()}
        # the harness is built for what the library offers; the probe results are reported separately
        f_h = ex.submit(build_c12_harness, flags)
        ok_d, log_d = f_drv.result()
        ok_h, exe, log_h = f_h.result()
        if tier == "thorough":   # the same harness under ASan + UBSan (no access outside the root, no misaligned access)
            ok_a, exe_a, log_a = build_c12_harness(flags, ("-fsanitize=address,undefined", "-fno-sanitize-recover=all",
                                                           "-fno-omit-frame-pointer"), "-asan")
            if ok_a:
                res.coverage["sanitizer_harness"] = os.path.basename(exe_a)
                prepare.asan_exe = exe_a
            else:
                problems.append(("build:sanitizer-harness-does-not-compile", log_a))
    if not ok_d:
        problems.append(("build:model-extraction-or-driver", log_d))
    if not ok_h:
        problems.append(("build:harness-%s-does-not-compile-against-%s" % (HARNESS, core.INCLUDE), log_h))
    if problems:
        for step, log in problems:
            path = core.write_replay(PID, "", {"property": PID, "found-by": step, "log": log[-3000:]})
            res.violation(path, step, no_input=True)
        return None
    for name in sorted(PROBES):
        ok_p, log_p = probes[name]
        if ok_p:
            continue
        record, what = PROBE_RECORDS[name]
        kf = core.match_known(PID, record)
        if kf:
            res.known_finding(kf)
        else:
            body = open(os.path.join(core.VERIF, PROBES[name][0])).read()
            path = core.write_replay(PID, body, {
                "property": PID, "found-by": "compile-probe", "record": json.dumps(record), "what": what,
                "compiler-said": "\n".join(l for l in log_p.splitlines() if "error" in l)[:1500],
                "replay": "g++ -std=c++17 -fsyntax-only -I<repo>/include <this file without the # lines>"})
            res.violation(path, "compile probe: " + what)
    return coq, exe, flags


prepare.asan_exe = None


def report_failures(res, exe, flags, prog_text, obs_text, impl_text, crashes, max_report=4):
    blocks = dict(core.split_cases(prog_text))
    failing = {}
    for cid, ml, il in core.diff_cases(obs_text, impl_text):
        failing.setdefault(cid, ("correspondence", ml, il))
    for cid, what, line in monitors(prog_text, impl_text):
        failing.setdefault(cid, ("monitor:" + what, "", line))
    for cid, rc, err in crashes:
        tail = (err.strip().splitlines() or [""])[-1]
        failing[cid] = ("crash", "", "exit/signal %s: %s" % (rc, tail))
    n_reported = 0
    for cid in sorted(failing, key=lambda c: len(blocks.get(c, ""))):
        found_by, ml, il = failing[cid]
        block = blocks.get(cid)
        if block is None:
            continue
        projs = [ln.split()[1] for ln in block.splitlines() if ln.startswith("proj ")]
        record = {"harness": HARNESS, "found_by": found_by.split(":")[0], "projection": ",".join(projs),
                  "line_kind": (il.split() or [""])[0]}
        kf = core.match_known(PID, record)
        if kf:
            res.known_finding(kf)
            continue
        if n_reported >= max_report:
            continue
        n_reported += 1
        small = shrink(exe, block, flags)
        r = case_fails(exe, small, flags)
        if not r:
            small, r = block, (found_by, ml, il)
        path = core.write_replay(PID, small, {
            "property": PID, "tier": res.tier, "seed": res.seed, "found-by": r[0],
            "model-said": r[1], "implementation-said": r[2],
            "note": "model = coq/Model/ProjectC12.v, proved in Properties_C12.v; replay: ./check C12 --replay <this file>"})
        res.violation(path, "%s: model %r impl %r" % (r[0], r[1], r[2]))
    return len(failing)


def run(tier, seed, replay=None):
    res = core.Result(PID, tier, seed, level="proof")
    prep = prepare(res, "quick" if replay else tier)
    if prep is None:
        return res.finish()
    coq, exe, flags = prep
    if replay:
        block = "".join(l for l in open(replay) if not l.startswith("#"))
        if "case " not in block:
            print("replay verdict: not a program replay (see the header of the file); compile probe results:",
                  ", ".join("%s %s" % (n, "compiles" if flags.get(n) else "does not compile") for n in sorted(flags)))
            return res.finish()
        r = case_fails(exe, block, flags)
        print("replay verdict:", r if r else "agrees (no violation)")
        if r:
            res.violation(os.path.relpath(os.path.abspath(replay), core.VERIF), str(r))
        return res.finish()
    count = 2500 if tier == "quick" else 300000
    progs, obss = [], []
    n_corpus_skipped = 0
    for f in sorted(glob.glob(os.path.join(core.VERIF, "corpus", PID, "*.prog"))):
        block = "".join(l for l in open(f) if not l.startswith("#"))
        mobs = model_run(block, flags)
        # corpus cases that need something the library under test does not compile (see compile_probes) are outside
        # the domain of this build: the model says so with an X line; they are skipped, and counted
        outside = set(m.group(1) for m in re.finditer(r"^X (\S+) ", mobs, re.M))
        if outside:
            n_corpus_skipped += len(outside)
            block = "".join(b for cid, b in core.split_cases(block) if cid not in outside)
            mobs = "\n".join(l for l in mobs.splitlines() if len(l.split()) < 2 or l.split()[1] not in outside) + "\n"
        progs.append(block)
        obss.append(mobs)
    n_corpus = sum(len(core.split_cases(p)) for p in progs)
    extra = ["--maxpre", "4", "--maxpost", "3"] if tier == "quick" else ["--maxpre", "6", "--maxpost", "5"]
    dist = {}
    chunk = 20000
    k = 0
    while k < count:
        n = min(chunk, count - k)
        p, o, d = generate(seed + k, n, flags, prefix="p%d_" % (k // chunk), extra=extra)
        progs.append(p)
        obss.append(o)
        for key, v in d.items():
            dist[key] = dist.get(key, 0) + v
        k += n
    prog_text, obs_text = "".join(progs), "".join(obss)
    impl_text, crashes = core.run_harness(exe, prog_text)
    n_failing = report_failures(res, exe, flags, prog_text, obs_text, impl_text, crashes)
    if prepare.asan_exe and n_failing == 0:
        # a sub-sample again under the sanitizers: same observations expected, and no sanitizer report
        sub_cases = core.split_cases(prog_text)[:30000]
        sub_ids = set(c for c, _b in sub_cases)
        sub_prog = "".join(b for _c, b in sub_cases)
        sub_obs = "\n".join(l for l in obs_text.splitlines() if len(l.split()) >= 2 and l.split()[1] in sub_ids) + "\n"
        a_text, a_crashes = core.run_harness(prepare.asan_exe, sub_prog, env={"ASAN_OPTIONS": "detect_leaks=0"}, timeout=1200)
        n_failing += report_failures(res, prepare.asan_exe, flags, sub_prog, sub_obs, a_text, a_crashes)
        res.coverage["sanitizer_cases"] = len(sub_cases)
    if tier == "thorough":
        n_vm, bad_vm, log_vm = vm_crosscheck(prog_text, obs_text)
        res.coverage["vm_compute_crosscheck"] = {"cases": n_vm, "disagreeing": bad_vm}
        if bad_vm:
            path = core.write_replay(PID, "".join(b for c, b in core.split_cases(prog_text) if c in bad_vm[:3]),
                                     {"property": PID, "found-by": "extraction-vs-vm_compute", "cases": ",".join(bad_vm[:10]),
                                      "log": log_vm})
            res.violation(path, "extracted model disagrees with vm_compute", no_input=True)
    if not coq["ok"] and n_failing == 0:
        path = core.write_replay(PID, "", {"property": PID, "found-by": "proof:Properties_%s.v" % PID,
                                           "log": coq["log"][-3000:], "obligations": coq["obligations"],
                                           "discharged": coq["discharged"]})
        res.violation(path, "proof obligations no longer check", no_input=True)
    conv_kinds, conv_overloads = conversion_tables(dist)
    for key in [k for k in dist if k.startswith("srcbase:")]:
        dist.pop(key)          # summarised, for corpus + generated cases, by projection_receiver_base_table
    cases = core.split_cases(prog_text)
    samples = [b for _c, b in cases[n_corpus:n_corpus + 600] if b.count("\nop ") >= 3 and "\nproj " in b][:3]
    res.coverage.update({
        "evaluations": len(cases),
        "distinct_nontrivial": distinct_nontrivial(prog_text),
        "rule": "random projection programs: root of struct{int a;int b;double c;} (73%%) or std::complex<double> (27%%), rank 1..4, "
                "extents 1..6 (18%% of cases force extents 0/1); 55%% of the roots are built over extensions with non-zero first "
                "indices (each dimension's base drawn from -3..3, 70%% non-zero); reindexed(i in -3..3) / blocked / reindexed(i,j,..) "
                "are in the operation alphabet of those cases and of a third of the others; 0..%s C01/C19 view operations drawn among those whose documented "
                "domain (dom_op of the model) holds; 1 or 2 projections (member_cast a/b/c, reinterpret_array_cast<U>() to "
                "same-size / half-size / quarter-size U, reinterpret_array_cast<U>(n), static_array_cast, as_const, "
                "const_array_cast, element_transformed by value / member pointer / reference-returning functor, "
                "blas::real/imag/real_doubled; every one of them on sources of ANY index bases -- negative, zero, positive, in any "
                "dimension: based roots, reindexed, blocked, rows and rotated views of them -- whenever p_dom_proj of the model holds "
                "(= the static_asserts of the cast and both assertions inside layout_t::scale)), each called on a named view (35%%), "
                "through const& (20%%, where the library has a const overload), on std::move(view) (25%%) or on the temporary view() "
                "(20%%): see projection_overload_map and projection_receiver_base_table; extensions (first and last index of every "
                "dimension), sizes, strides compared after every step; after each projection 0..%s further view operations; probes = all valid index "
                "tuples when <= 12 else both corners + 6 random; iterator walks (after 60%% of the projections, 35%% of the later "
                "operations, 0..2 at the end): leading iterators of the view or of a row, the flat elements() iterators (mutable or "
                "const, started at begin() or end(), 3..8 tokens among ++ -- it++ it-- += -= + - it[k] *reverse_iterator(it) "
                "*(r+k) r[k] kept inside [begin, end]), or the element pointer base() itself as a cursor over the source "
                "elements that follow it in the root (+= -= + - p[k] and pointer difference: the whole interface of "
                "transform_ptr); every dereference compared with the model's and with indexing; "
                "35%% mutate-after-view (laziness), 40%% write-through; 55%% 1..3 array "
                "conversions (kind = source form {view, const view of an array, array, array_ref, static_array, iterator pair, flat "
                "range; from a rank-1 view also a C array, an initializer_list and a rank-0 array of its first elements} x value "
                "category {named, const&, std::move, temporary} x how {constructor, constructor with allocator, assignment onto "
                "the same extensions / a reshapable array / an empty array, from(), assign(first,last), static_array "
                "assignment} x target {same type, arithmetic conversion incl. complex<double> -> complex<float>, implicit "
                "wrapper, explicit-only wrapper, explicit-and-assignable wrapper}, drawn among those that compile): extensions "
                "and the first 64 elements compared; non-trivial = a projection and >= 2 view operations; distinct = hash of the non-probe lines"
                % (extra[1], extra[3]),
        "samples": samples,
        "generator_distribution": dist,
        "projection_value_category_table": value_category_table(prog_text, obs_text),
        "projection_receiver_base_table": receiver_base_table(prog_text, obs_text),
        "projection_overload_map": PROJECTION_OVERLOADS,
        "conversion_kind_table": conv_kinds,
        "conversion_overload_table": conv_overloads,
        "iterator_walk_lines": len(re.findall(r"^I ", obs_text, re.M)),
        "iterator_dereferences_compared": len(re.findall(r"^I .* d=", obs_text, re.M)),
        "observation_lines_compared": obs_text.count("\n"),
        "address_probes": len(re.findall(r"^[PW] .* O=-?\d", obs_text, re.M)),
        "value_only_probes": len(re.findall(r"^[PW] .* O=- ", obs_text, re.M)),
        "modified_word_lines": len(re.findall(r"^M ", obs_text, re.M)),
        "constructed_array_elements": len(re.findall(r"^c ", obs_text, re.M)),
        "corpus_cases": n_corpus,
        "corpus_cases_outside_this_build": n_corpus_skipped,
        "disagreeing_cases": n_failing,
        "compile_probes": {n: ("compiles" if flags.get(n) else "does not compile") for n in sorted(flags)},
        "not_exercised": ["as_const()/const_array_cast() on rank-1 views (members do not exist in the D=1 class at this commit)",
                          "reinterpret_array_cast on rank-0 views", "custom (non-raw, non-transform_ptr) pointer types: C11",
                          "const& receivers of element_transformed(&S::b) / (reference-returning f) and of blas::real / imag / "
                          "real_doubled (a further transform_ptr type not instantiated in the harness; f needs S&; blas::real(const view) "
                          "does not compile); the deprecated static_array_cast const& overload to a non-const target (:1701)",
                          "the second branch of `if constexpr(std::is_pointer_v<ElementPtr>)` in reinterpret_array_cast<U>(n) const& "
                          "(array_ref.hpp:1855): projections are applied to raw-pointer views only (C11 for other pointer types)",
                          "diagonal() on views whose first two index bases are not 0 (known finding KF-C19-diagonal-rebased)",
                          "taked() for D > 1 (does not compile)",
                          "each of the following only when its compile probe succeeds (see compile_probes): post-projection "
                          "sliced()/diagonal()/blocked() on transform_ptr views of rank >= 2; const iterators of rank-1 "
                          "transform_ptr views; arrays of explicit-only element types constructed from a view",
                          "conversion to the wrapper element types for ranks 4 and 5 (harness compile time)",
                          "rank-0 VIEWS (array<T,0>::operator()() does not terminate template instantiation at this commit), so "
                          "array.hpp:835 and :876 (from const_subarray<T,0>) are not reached; rank-0 arrays are (zctor/zalloc/zasg/zelem)",
                          "array(std::initializer_list<OtherT>) for explicit-only element types (array.hpp:1224): hard error at this commit"],
    })
    res.assumptions = ["no 64-bit overflow in index arithmetic", "g++ 12 / libstdc++ as installed, x86-64 little endian, IEEE doubles "
                       "(the fill pattern of the root is compared word by word)",
                       "the object model of C++ identifies the member/sub-object with the bytes at its address (addresses are proved, "
                       "values are observed)",
                       "empty roots are array_ref over a 1-element buffer (null-base assertion belongs to C20)"]
    return res.finish()

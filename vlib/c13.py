"""C13 -- BLAS adaptor.  Proof: coq/Properties/Properties_C13.v (about Model/BlasC13.v, whose gemm_n/gemv_n ladders are
also regenerated from the source text by gen/blas_dispatch_to_coq.py on every run).  Tie: h_blas_c13 (+ BLAS symbol
interposition) vs the extracted model, in an assertion-enabled and an NDEBUG build; direct monitors (naive loops on exact
small-integer data, guard cells, inputs, cells of the output root outside the view) independent of the model."""
import hashlib
import importlib.util
import json
import os
import re

from . import core

PID = "C13"
GEN = os.path.join(core.VERIF, "gen", "blas_dispatch_to_coq.py")
GEN_V = os.path.join(core.COQ, "Model", "BlasC13Gen.v")
GEN3_V = os.path.join(core.COQ, "Model", "BlasC13L3Gen.v")
SITES3 = os.path.join(core.BUILD, "c13_sites_l3.json")
SITES = os.path.join(core.BUILD, "c13_sites.json")
DRIVER = os.path.join(core.BIN, "driver_c13")
# call sites of the hand-transcribed level-3 dispatch (Model/BlasC13L3.v); gemm/gemv sites come from the translator
L3_SITES = {"601": "syrk.hpp:24", "602": "syrk.hpp:26", "603": "syrk.hpp:30", "604": "syrk.hpp:32",
            "701": "herk.hpp:124", "702": "herk.hpp:126", "703": "herk.hpp:129", "704": "herk.hpp:130",
            "711": "herk.hpp:134", "712": "herk.hpp:136", "713": "herk.hpp:140",
            "801": "trsm.hpp:92", "802": "trsm.hpp:93", "803": "trsm.hpp:94", "804": "trsm.hpp:95", "811": "trsm.hpp:98",
            "812": "trsm.hpp:99", "821": "trsm.hpp:102", "831": "trsm.hpp:106", "832": "trsm.hpp:107"}
WORK = os.path.join(core.BUILD, "work", PID)
os.makedirs(WORK, exist_ok=True)


# ------------------------------------------------------------------------------------------------
# build steps
# ------------------------------------------------------------------------------------------------
def regenerate():
    """Run the translator on the CURRENT source text. Returns (ok, message, sites)."""
    spec = importlib.util.spec_from_file_location("c13_translator", GEN)
    mod = importlib.util.module_from_spec(spec)
    spec.loader.exec_module(mod)
    try:
        sites = dict(mod.main(core.INCLUDE, GEN_V, SITES))
        sites.update(mod.main_l3(core.INCLUDE, GEN3_V, SITES3))
        return True, "regenerated (gemm.hpp gemv.hpp syrk.hpp herk.hpp trsm.hpp)", sites
    except mod.TranslatorError as ex:
        return False, "translator: %s" % ex, {}
    except (OSError, ValueError, IndexError) as ex:
        return False, "translator could not read the sources: %r" % (ex,), {}


def build_all(res):
    """Translator + Coq + driver + two harness builds.  Returns dict or None (after reporting)."""
    problems = []
    ok_t, msg_t, sites = regenerate()
    if not ok_t:
        problems.append(("translator:a-dispatch-ladder-of-gemm/gemv/syrk/herk/trsm.hpp-is-no-longer-in-the-table-grammar", msg_t))
    coq = core.coq_check_property(PID)
    core.proof_coverage(res, coq)
    ok_d, log_d = core.ensure_driver_for("c13", "ExtractC13.v", ["c13_zu.ml", "c13_expr.ml", "c13_level1.ml", "c13_level3.ml", "c13_driver.ml"], "driver_c13",
                                         model_base="modelc13")
    if not ok_d:
        problems.append(("build:model-extraction-or-driver", log_d))
    srcs = ["h_blas_c13.cpp", "interpose_blas_c13.cpp"]
    exes = {}
    for mode, flags in (("dbg", ()), ("ndebug", ("-DNDEBUG",))):
        ok_h, exe, log_h = core.build_harness("h_blas_c13", srcs, flags=flags, libs=("-ldl",), tag="-" + mode)
        if not ok_h:
            problems.append(("build:harness-h_blas_c13-%s-does-not-compile-against-%s" % (mode, core.INCLUDE), log_h))
        exes[mode] = exe
    return {"coq": coq, "exes": exes, "sites": sites, "problems": problems, "translator_ok": ok_t, "translator_msg": msg_t}


def generate(seed, tier):
    prog = os.path.join(WORK, "prog_%s.txt" % tier)
    rc, out, err = core.sh([DRIVER, "gen", "--seed", str(seed), "--tier", tier, "--prog", prog], timeout=600)
    if rc != 0:
        raise RuntimeError("c13 driver gen failed: " + err[-2000:])
    try:
        dist = json.loads(out.strip().splitlines()[-1])
    except (ValueError, IndexError):
        dist = {}
    return open(prog).read(), dist


def model_run(impl_text, tag):
    p = os.path.join(WORK, "impl_%s.txt" % tag)
    o = os.path.join(WORK, "obs_%s.txt" % tag)
    with open(p, "w") as f:
        f.write(impl_text)
    rc, out, err = core.sh([DRIVER, "run", "--impl", p, "--obs", o], timeout=600)
    if rc != 0:
        raise RuntimeError("c13 driver run failed: " + err[-2000:])
    return open(o).read()


# ------------------------------------------------------------------------------------------------
# classification
# ------------------------------------------------------------------------------------------------
KV = re.compile(r"(\w+)=(\S+)")


def fields(line):
    return dict(KV.findall(line))


def analyse(mode, prog_text, impl_text, model_text, crashes, dbg_outcomes=None):
    """Per case: correspondence (K/O lines of model vs implementation) and the direct monitors.
    Returns (records, outcomes): records = list of dict(case, kind, site, routine, mode, detail, model, impl)."""
    impl, model = core.by_case(impl_text), core.by_case(model_text)
    recs, outcomes = [], {}
    crashed = {cid: (rc, err) for cid, rc, err in crashes}
    for cid, _block in core.split_cases(prog_text):
        il = impl.get(cid, [])
        ml = model.get(cid, [])
        s = {}
        for l in ml:
            if l.startswith("S "):
                s = fields(l)
        routine, site = s.get("routine", "?"), s.get("site", "?")
        q = next((l for l in il if l.startswith("Q ")), "")
        qparts = q.split()
        if len(qparts) >= 3:
            routine = qparts[2]
        base = {"case": cid, "site": site, "routine": routine, "mode": mode, "crit": s.get("crit", "0")}
        if cid in crashed or not any(l.startswith("E ") for l in il):
            rc, err = crashed.get(cid, ("?", "no output"))
            recs.append(dict(base, kind="crash", detail="harness process died (exit/signal %s): %s" % (rc, (err.strip().splitlines() or [""])[-1][:200]),
                             model="", impl=""))
            continue
        o = next((l for l in il if l.startswith("O ")), "")
        of = fields(o)
        outcomes[cid] = of.get("outcome", "?")
        x = next((l for l in il if l.startswith("X ")), None)
        if x is not None:
            # the forked child that ran the case died (memory corruption, SIGFPE, ...): a wrong behaviour of the library call
            recs.append(dict(base, kind="wrong", detail="the process running the case died: " + " ".join(x.split()[2:]), model="", impl=x))
            continue
        # (1) correspondence: the calls that reached BLAS and how the adaptor call ended
        # (W lines, expression cases: the decorated operand views as the library's view machinery / the model's decos_mat report them)
        ik = [l for l in il if l[:2] in ("W ", "K ", "O ")]
        mk = [l for l in ml if l[:2] in ("W ", "K ", "O ")]
        # the predicted call was made (same K lines) and the model expects the statement to complete, but the process aborted
        # AFTER the forwarded BLAS call: glibc detected a corrupted heap when the freshly built result was released, i.e. the
        # call wrote outside the output.  That is a wrong behaviour of the call (kind "wrong": at crit = 1 never maskable),
        # not a disagreement about which call is made.
        # a record of the harness that is no longer printable text was overwritten in memory: the call wrote outside its output
        if any((not ch.isprintable()) and ch not in "\n\r\t" for l in ik for ch in l):
            recs.append(dict(base, kind="wrong", detail="the harness' own record of the call was overwritten in memory (cells outside the output were written)",
                             model="", impl=repr(next(l for l in ik if any((not ch.isprintable()) and ch not in "\n\r\t" for ch in l)))[:200]))
            continue
        i_k, m_k = [l for l in ik if l[:2] == "K "], [l for l in mk if l[:2] == "K "]
        if (ik != mk and i_k and i_k == m_k and [l for l in ik if l[:2] == "W "] == [l for l in mk if l[:2] == "W "]
                and of.get("outcome") == "abort" and any(l.startswith("O ") and "outcome=ok" in l for l in mk)):
            recs.append(dict(base, kind="wrong", detail="the process aborted after the BLAS call (heap corruption: cells outside the output were written)",
                             model="", impl=o))
            continue
        if ik != mk:
            a = next((x for x, y in zip(mk, ik) if x != y), mk[len(ik)] if len(mk) > len(ik) else "<nothing>")
            b = next((y for x, y in zip(mk, ik) if x != y), ik[len(mk)] if len(ik) > len(mk) else "<nothing>")
            recs.append(dict(base, kind="correspondence", detail="model and library disagree on the BLAS call / outcome / decorated view", model=a, impl=b))
        if "harness-error" in o or "model-error" in "".join(mk):
            recs.append(dict(base, kind="harness", detail=o, model="".join(mk), impl=o))
            continue
        # a case the assertion-enabled build rejects by an assertion carries no obligation in the NDEBUG build
        if mode == "ndebug" and dbg_outcomes is not None and dbg_outcomes.get(cid) == "abort":
            continue
        wf = s.get("wf") == "1" and s.get("conform") == "1"
        # (2) legality of what reached BLAS (checked by the interposer itself)
        for l in il:
            if l.startswith("K ") and "info=" in l and fields(l).get("info") != "0":
                recs.append(dict(base, kind="bad-ld", detail="call illegal for reference BLAS (XERBLA parameter %s): nothing is computed, no diagnostic"
                                 % fields(l)["info"], model="", impl=l))
        # (3) rejections that come from a leading dimension the dispatch computed itself
        if of.get("outcome") == "throw" and of.get("why") in ("ld", "ldc", "alias", "logic") and wf:
            recs.append(dict(base, kind="bad-ld", detail="expressible product rejected by the wrapper's %s check" % of.get("why"), model="", impl=o))
        if of.get("outcome") == "throw" and of.get("why") in ("other", "unknown"):
            recs.append(dict(base, kind="wrong", detail="unexpected exception", model="", impl=o))
        # (4) result / frame monitors
        r = next((l for l in il if l.startswith("R ")), "")
        rf = fields(r)
        if rf.get("result", "na").startswith("bad") or any(rf.get(k, "ok").startswith("bad") for k in ("guards", "inputs", "frame")):
            if not any(x["case"] == cid and x["kind"] == "bad-ld" for x in recs):
                recs.append(dict(base, kind="wrong", detail=" ".join(r.split()[2:]), model="", impl=r))
    return recs, outcomes


def match_known_c13(record):
    """core.match_known with one extension: a LIST-valued match field agrees when the record's value is a member of the
    list (used for "site_kind": ["103:bad-ld", "105:bad-ld", ...], so that one defect that shows at several call sites /
    in two kinds is one entry).  Every other field must be equal, as in core.  A (site, kind) pair that is not listed in
    any entry does not match, i.e. it is still a VIOLATION."""
    rec = dict(record)
    rec["site_kind"] = "%s:%s" % (record.get("site"), record.get("kind"))
    for f in core.load_known().get("findings", []):
        if f.get("property") != PID or f.get("status", "open") != "open":
            continue
        m = f.get("match", {})
        if not m:
            continue
        ok = True
        for k, v in m.items():
            if isinstance(v, list):
                ok = ok and str(rec.get(k)) in [str(x) for x in v]
            else:
                ok = ok and str(rec.get(k)) == str(v)
        if ok:
            return f
    return None


BUFBASE = {"A": 1000000, "M": 1000000, "B": 2000000, "X": 2000000, "C": 3000000, "Y": 3000000, "R": 4000000, "S": 5000000, "Q": 5000000}


def _addr(w):
    if len(w) > 2 and w[1] == "+" and w[0] in BUFBASE:
        return BUFBASE[w[0]] + int(w[2:])
    return 8000000 if w == "null" else 9000000


def _z(n):
    return "(%d)" % int(n)


DECO = {"N": "DcN", "T": "DcT", "t": "DcT", "J": "DcJ", "j": "DcJ", "H": "DcH"}


def _decos(ds):
    return "[" + "; ".join(DECO[c] for c in ds if c in DECO) + "]"


def _g(pair, real_only=False):
    re_, im_ = pair.split(",")
    return "(%s, %s)" % (_z(re_), _z(0 if real_only else im_))


def _transposes(ds):
    return sum(1 for c in ds if c in "THt") % 2 == 1


def _expr_term(routine, q, il, mats, vecs, debug):
    """The Coq term whose vm_compute value the extracted model printed on its C line, for an expression case."""
    t = next((fields(l) for l in il if l.startswith("T ")), None)
    if t is None:
        return None
    dashes = lambda v: "" if v in (None, "-") else v
    cplx = "true" if q[3] in ("c", "z") else "false"
    alpha = after_eq(q[6])
    cons = "CsPlusAssign" if t.get("consume") in ("pluseq", "arr_pluseq") else "CsAssign"
    fresh = lambda n: _z(8000000 if n == 0 else 4000000)
    dims = {}
    for l in il:
        p = l.split()
        if p[0] == "D" and len(p) == 9:
            dims[p[2]] = (int(p[6]), int(p[7]))
    if routine == "gemm" and "A" in mats and "B" in mats:
        star = t.get("base") == "star"
        da, db, dc = dashes(t.get("dA")), dashes(t.get("dB")), dashes(t.get("dC"))
        opa = "(mk_operand %s %s)" % (_decos(da), mats["A"])
        opb = "(mk_operand %s %s)" % (_decos(db), mats["B"])
        e = "(GxStar gI %s %s)" % (opa, opb) if star else "(GxGemm gI %s %s %s)" % (_g(alpha), opa, opb)
        sc = dashes(t.get("scales"))
        for f in (sc.split(";") if sc else []):
            e = "(GxScale gI %s %s)" % (_g(f, real_only=star), e)
        m = dims["A"][1] if _transposes(da) else dims["A"][0]
        n = dims["B"][0] if _transposes(db) else dims["B"][1]
        c = t.get("consume")
        if c in ("assign", "assign_rv", "pluseq"):
            if "C" not in mats:
                return None
            target = "(GtView (mk_operand %s %s))" % (_decos(dc), mats["C"])
        elif c in ("construct", "plus"):
            target = "(GtFresh %s)" % fresh(m * n)
        else:
            r0, c0 = [int(x) for x in t.get("arr", "0x0").split("x")]
            target = "(GtArray %s %s %s %s)" % (_z(8000000 if r0 * c0 == 0 else 3000000), _z(r0), _z(c0), fresh(m * n))
        return "gplan_code (gcompile gI (0, 0) (1, 0) gI_mul %s %s (mk_gstmt gI %s %s %s))" % (cplx, debug, target, cons, e)
    if routine == "gemv" and "M" in mats and "X" in vecs:
        dm = dashes(t.get("dM"))
        opm = "(mk_operand %s %s)" % (_decos(dm), mats["M"])
        base = t.get("base")
        e = ("(VxScaledPct gI %s %s %s)" % (_g(alpha), opm, vecs["X"]) if base == "pct_scaled"
             else "(VxPct gI %s %s)" % (opm, vecs["X"]) if base == "pct" else "(VxGemv gI %s %s %s)" % (_g(alpha), opm, vecs["X"]))
        rows = dims["M"][1] if _transposes(dm) else dims["M"][0]
        c = t.get("consume")
        if c in ("assign", "assign_rv", "pluseq"):
            if "Y" not in vecs:
                return None
            target = "(VtView %s)" % vecs["Y"]
        elif c in ("construct", "plus"):
            target = "(VtFresh %s)" % fresh(rows)
        else:
            n0 = int(t.get("arr", "0"))
            target = "(VtArray %s %s %s)" % (_z(8000000 if n0 == 0 else 3000000), _z(n0), fresh(rows))
        return "vplan_code (vcompile gI (0, 0) (1, 0) %s %s (mk_vstmt gI %s %s %s))" % (cplx, debug, target, cons, e)
    return None


def after_eq(w):
    return w.split("=", 1)[1] if "=" in w else w


def vm_compute_crosscheck(impl_text, model_text, sample):
    """Re-evaluate a sub-sample of gemm / gemv cases with `Eval vm_compute` inside coqc and compare the verdict with what the
    EXTRACTED model printed (C lines).  Returns (number compared, list of (case id, coq, ocaml))."""
    impl, model = core.by_case(impl_text), core.by_case(model_text)
    ids = [cid for cid, ml in model.items() if any(l.startswith("C ") for l in ml)]
    ids.sort(key=lambda c: hashlib.sha256(c.encode()).hexdigest())
    ids = ids[:sample]
    lines = ["From Coq Require Import ZArith List Bool.", "From BM Require Import Model.BlasC13 Model.BlasC13Expr Model.BlasC13Code.", "Import ListNotations.",
             "Local Open Scope Z_scope."]
    order = []
    for cid in ids:
        il = impl.get(cid, [])
        q = next((l.split() for l in il if l.startswith("Q ")), None)
        if not q:
            continue
        routine, form, debug = q[2], q[4], "true" if q[5].endswith("=1") else "false"
        mats, vecs = {}, {}
        for l in il:
            p = l.split()
            if p[0] == "D" and len(p) == 9:
                mats[p[2]] = "(mk_mat %s %s %s %s %s %s)" % (_z(_addr(p[3])), _z(p[4]), _z(p[5]), _z(p[6]), _z(p[7]), "true" if p[8] == "1" else "false")
            if p[0] == "V" and len(p) == 7:
                vecs[p[2]] = "(mk_vec %s %s %s %s)" % (_z(_addr(p[3])), _z(p[4]), _z(p[5]), "true" if p[6] == "1" else "false")
        if form == "expr":
            term = _expr_term(routine, q, il, mats, vecs, debug)
            if term:
                lines.append("Eval vm_compute in (%s)." % term)
                order.append(cid)
        elif routine == "gemm" and all(k in mats for k in "ABC"):
            f = "gemm_inplace" if form == "inplace" else "gemm_lazy"
            lines.append("Eval vm_compute in (final_code (%s %s %s %s %s))." % (f, debug, mats["A"], mats["B"], mats["C"]))
            order.append(cid)
        elif routine == "gemv" and "M" in mats and "X" in vecs and "Y" in vecs:
            f = "gemv_inplace" if form == "inplace" else "gemv_lazy"
            lines.append("Eval vm_compute in (vfinal_code (%s %s %s %s %s))." % (f, debug, mats["M"], vecs["X"], vecs["Y"]))
            order.append(cid)
    core.coq_make(["Model/BlasC13Code.vo"])
    path = os.path.join(WORK, "c13_vmcheck.v")
    with open(path, "w") as f:
        f.write("\n".join(lines) + "\n")
    rc, out, err = core.sh(["coqc", "-Q", core.COQ, "BM", path], cwd=WORK, timeout=600)
    if rc != 0:
        return 0, [("<coqc>", (out + err)[-500:], "")]
    results = [b for b in re.split(r":\s*list Z", out) if "=" in b]   # one block per Eval, whatever the list notation
    bad = []
    for cid, res in zip(order, results):
        coq = [int(x) for x in re.findall(r"-?\d+", res)]
        oc = next(([int(x) for x in l.split()[2:]] for l in model[cid] if l.startswith("C ")), None)
        if coq != oc:
            bad.append((cid, coq, oc))
    if len(results) != len(order):
        bad.append(("<count>", len(results), len(order)))
    return len(order), bad


def case_fails(exes, block, mode):
    """Re-run one case in one mode; returns the list of violation records (empty = fine)."""
    impl, crashes = core.run_harness(exes[mode], block, shards=1, timeout=60)
    dbg_out = None
    if mode == "ndebug":
        di, dc = core.run_harness(exes["dbg"], block, shards=1, timeout=60)
        dm = model_run(di, "replay_dbg")
        _r, dbg_out = analyse("dbg", block, di, dm, dc)
    model = model_run(impl, "replay_" + mode)
    recs, _ = analyse(mode, block, impl, model, crashes, dbg_out)
    return recs, impl, model


def nontrivial(block):
    """a case is non-trivial when no operand is empty (all sizes >= 1)"""
    for line in block.splitlines():
        p = line.split()
        if p and p[0] in "ABCM" and len(p) >= 9 and (p[4] == "0" or p[7] == "0"):
            return False
        if p and p[0] in "XY" and len(p) >= 6 and p[3] == "0":
            return False
    return True


def report(res, exes, prog_text, recs_by_mode, sites, max_report=6):
    blocks = dict(core.split_cases(prog_text))
    n_reported, n_bad = 0, 0
    seen_sig = set()
    allrecs = [r for m in ("dbg", "ndebug") for r in recs_by_mode.get(m, [])]
    # smallest cases first
    allrecs.sort(key=lambda r: (len(blocks.get(r["case"], "")), r["case"]))
    stats = {}
    for r in allrecs:
        key = "%s/site%s/%s/%s" % (r["routine"], r["site"], r["kind"], r["mode"])
        stats[key] = stats.get(key, 0) + 1
    for r in allrecs:
        n_bad += 1
        record = {"routine": r["routine"], "site": r["site"], "kind": r["kind"]}
        # a known finding can only cover a case that the PROVED criterion does not certify (crit = 0): where the criterion
        # holds the library must be right, whatever is on file for that call site
        kf = match_known_c13(record) if (r["kind"] in ("wrong", "bad-ld") and r.get("crit") == "0") else None
        if kf:
            res.known_finding(kf)
            continue
        sig = (r["routine"], r["site"], r["kind"])
        if sig in seen_sig or n_reported >= max_report:
            continue
        seen_sig.add(sig)
        n_reported += 1
        block = blocks.get(r["case"], "")
        path = core.write_replay(PID, block, {
            "property": PID, "tier": res.tier, "seed": res.seed, "mode": r["mode"], "found-by": r["kind"],
            "routine": r["routine"], "dispatch-site": "%s (%s)" % (r["site"], sites.get(str(r["site"]), "-")),
            "what": r["detail"], "model-said": r["model"], "implementation-said": r["impl"],
            "note": "replay: ./check C13 --replay <this file>; the model is Model/BlasC13.v (theorems in Properties_C13.v)"})
        no_input = r["kind"] == "correspondence" and not any(
            x["case"] == r["case"] and x["kind"] in ("wrong", "bad-ld", "crash") for x in allrecs)
        res.violation(path, "%s %s site %s: %s" % (r["kind"], r["routine"], r["site"], r["detail"]), no_input=no_input)
    return n_bad, stats


def run(tier, seed, replay=None):
    res = core.Result(PID, tier, seed, level="proof")
    b = build_all(res)
    for step, log in b["problems"]:
        path = core.write_replay(PID, "", {"property": PID, "found-by": step, "log": log[-3000:]})
        res.violation(path, step, no_input=True)
    if any(s.startswith("build:") for s, _ in b["problems"]):
        return res.finish()
    exes, coq = b["exes"], b["coq"]
    sites = dict(L3_SITES)            # fallback names; the translator's own table (file:line of this run) takes precedence
    sites.update(b["sites"])
    if replay:
        block = "".join(l for l in open(replay) if not l.startswith("#"))
        bad = []
        for mode in ("dbg", "ndebug"):
            recs, impl, model = case_fails(exes, block, mode)
            for r in recs:
                rec = {"routine": r["routine"], "site": r["site"], "kind": r["kind"]}
                kf = match_known_c13(rec) if (r["kind"] in ("wrong", "bad-ld") and r.get("crit") == "0") else None
                print("replay [%s] %s site %s: %s%s" % (mode, r["kind"], r["site"], r["detail"], "  (known finding %s)" % kf["id"] if kf else ""))
                if not kf:
                    bad.append(r)
        print("replay verdict:", "VIOLATES" if bad else "no (new) violation")
        if bad:
            res.violation(os.path.relpath(replay, core.VERIF), str(bad[0]["detail"]))
        return res.finish()

    prog_text, dist = generate(seed, tier)
    # corpus first
    corpus = ""
    cdir = os.path.join(core.VERIF, "corpus", PID)
    if os.path.isdir(cdir):
        for f in sorted(os.listdir(cdir)):
            if f.endswith(".prog"):
                corpus += "".join(l for l in open(os.path.join(cdir, f)) if not l.startswith("#"))
    prog_text = corpus + prog_text
    recs_by_mode, n_obs = {}, 0
    dbg_out = None
    for mode in ("dbg", "ndebug"):
        impl, crashes = core.run_harness(exes[mode], prog_text, timeout=900)
        model = model_run(impl, mode)
        recs, outs = analyse(mode, prog_text, impl, model, crashes, dbg_out)
        if mode == "dbg":
            dbg_out = outs
        recs_by_mode[mode] = recs
        n_obs += sum(1 for l in model.splitlines() if l[:2] in ("K ", "O "))
        if mode == "dbg":
            vm_n, vm_bad = vm_compute_crosscheck(impl, model, 200 if tier == "quick" else 1000)
    n_bad, stats = report(res, exes, prog_text, recs_by_mode, sites)
    for cid, coq_v, oc_v in vm_bad[:3]:
        path = core.write_replay(PID, dict(core.split_cases(prog_text)).get(cid, ""), {
            "property": PID, "found-by": "extraction:vm_compute-vs-extracted-model", "vm_compute": coq_v, "extracted": oc_v})
        res.violation(path, "vm_compute and the extracted model disagree", no_input=True)
    # a proof obligation that no longer closes (e.g. the regenerated ladder differs from the proved one)
    if not coq["ok"] and not res.violations:
        path = core.write_replay(PID, "", {"property": PID, "found-by": "proof:Properties_%s.v" % PID, "log": coq["log"][-3000:],
                                           "obligations": coq["obligations"], "discharged": coq["discharged"]})
        res.violation(path, "proof obligations no longer check", no_input=True)
    elif not coq["ok"]:
        print("note: the Coq build of Properties_C13.v no longer succeeds (the regenerated dispatch differs from the proved one); "
              "a failing input was found, see above")
    cases = core.split_cases(prog_text)
    distinct = set()
    for _cid, blk in cases:
        if nontrivial(blk):
            body = "\n".join(l for l in blk.splitlines() if not l.startswith("case "))
            body = re.sub(r" \d+$", "", body, flags=re.M)   # drop the data seeds: distinct = distinct call shapes
            distinct.add(hashlib.sha256(body.encode()).hexdigest())
    samples = [blk for _c, blk in cases if nontrivial(blk)][:1] + [blk for _c, blk in cases[len(cases) // 2:] if nontrivial(blk)][:1]
    res.coverage.update({
        "evaluations": 2 * len(cases),
        "distinct_nontrivial": len(distinct),
        "rule": "cases = (a) every tuple of {tight, padded} x {N, T} layouts for A, B, C with m, n, k in 1..3 (real double, in place; complex "
                "double with every conjugation pattern of A and B on a third of the size triples), (b) random gemm cases over element types "
                "s/d/z, forms in-place / view assignment / += / construction / unary + / operator*, sizes 0.. with 0 and 1 favoured, "
                "strided rows, column-strided (must be rejected) and conjugated outputs, (c) gemv over all layouts x vector kinds x sizes "
                "0..3 and random, (d) level-1 routines, (e) the expression layer: random trees  target (= | +=) f_k * ... f_1 * (blas::gemm(s, a, b) | a * b)  "
                "with 0-3 nested scalings (real and complex, 0 and 1 included), operands decorated by strings of 0-3 of blas::N/T/J/H, ~, unary * "
                "(left to right, so H(H(a)), J(H(a)), T(T(a)) occur), index bases on the operand views, targets = strided / padded / transposed views "
                "(= from lvalue and rvalue, +=), constructed arrays, unary +, and multi::array targets whose extensions equal the result's, have the "
                "same number of elements (reshape) or differ (re-allocation), sizes 0.. with 0 and 1 favoured; gemv the same with blas::gemv(s, m, x), "
                "(aa * m) % x, m % x; axpy_range (+=, -=, *= chains), scaled, y += x, y -= x, axpy(x, y), x + y, x - y; dot_ref (unary +, (x, y), nested "
                "f * dot, ==, element assignment); x *= scal(a), scal(a, first, last), y << x; +nrm2(x), abs(x), norm(x); trsm(side, fill, alpha, a, b), trsm(side, alpha, U|L(a), b), "
                "b /= U|L(a), b |= U|L(a); herk / syrk (fill, alpha, a, c), herk(a, c), herk(alpha, a), herk(a); in these cases the model is the EXTRACTED "
                "expression compiler of Model/BlasC13Expr.v over the Gaussian integers: its decorated views (W lines), scalars and calls are compared with "
                "what the library's view machinery and the interposed BLAS calls show, and the results with naive loops that read the raw buffers and "
                "interpret the decorations themselves; every case is run in an assertion-enabled and in an NDEBUG build (evaluations counts "
                "both); non-trivial = no operand is empty; distinct = by hash of the case text without the data seeds",
        "samples": samples,
        "generator_distribution": dist,
        "observation_lines_compared": n_obs,
        "disagreeing_cases": n_bad,
        "violation_statistics_by_site": stats,
        "dispatch_sites": sites,
        "translator": b["translator_msg"],
        "vm_compute_crosschecked_cases": vm_n,
        "not_exercised": ["gemm for std::complex<float> (ill-formed at the pinned commit: core.hpp:530)", "trsm with both operands conjugated (ill-formed: trsm.hpp:107)",
                          "the lazy herk_range form herk(fill, alpha, a) (no consumer reaches BLAS: herk.hpp:52-106 has only begin/end/size)",
                          "operands that alias the output", "negative strides (reversed views)",
                          "expression spellings that do not compile at the pinned commit: y -= blas::gemv(..) (README.md:285, no operator-=), "
                          "(aa * m) % x under `using namespace blas::operators` (only with `using blas::operators::operator*`), a ^ blas::H and x ^ 2 and "
                          "x ^ y once swap.hpp is included (ambiguous / ill-formed operator^), blas::axpy(a, x) with a non-const x (picks axpy(x, y)), "
                          "complex f * (a * b) (the scalar type of a * b is double), asum(x) / +asum(x) and the asum-based operators (asum.hpp:48), "
                          "herk(a, c) / herk(a) for complex<float> (double 1.0 as alpha)",
                          "y = blas::axpy(a, x) (copy_n of an axpy_range ACCUMULATES into y: axpy.hpp:89-92; undocumented, no mathematical reading fixed)",
                          "c += range / y += range with a target of another shape (gemm.hpp:296, gemv.hpp:153: no size check at all)",
                          "index bases on vector operands and on the operands of the level-1 / trsm / herk forms"],
    })
    res.assumptions = ["OpenBLAS implements the reference semantics written in Model/BlasC13Ref.v (sampled by the exact integer comparisons)",
                       "no 64-bit overflow; the adaptor's 64-bit integer arguments are read as 32-bit by LP64 OpenBLAS (little endian)",
                       "g++ 12 / libstdc++ as installed"]
    return res.finish()
